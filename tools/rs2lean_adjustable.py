"""rs2lean generator `adjustable` (C16): the eight `update`/`adjust` bodies of
deep_causality/src/types/context_types/node_types_adjustable/*/adjustable.rs -> Gen/Adjustable.lean.

Every function becomes  `def <Kind>.<fn> (self : <Kind>) (grid : Pt → Int) : <Kind> × Bool`
returning the node *as it stands when the Rust function returns* — also on the `return Err(..)` paths, so
that an assignment to `self.f` that precedes a later early return shows up as a partial write — and
`true` for `Ok(())`, `false` for `Err(_)`.

Values of the generic `T` are `Int` (`T::default()` = 0, `+`/`-`/`*` exact): overflow of a concrete `T`
is outside the property and outside this model. The grid is a function of the `PointIndex` handed to
`ArrayGrid::get`; the constructors `PointIndex::new1d…new4d` are translated from point.rs.

Recognised grammar (anything else raises Unsupported => the proof obligations break). A body is a control-flow tree:
    let <id> = PointIndex::new<k>d(<n>, …);                  -- <n>: literal or `const NAME: usize = <literal>;` of the file
    let <id> = <grid>.get(<point id> | PointIndex::new<k>d(…));
    let <id> = <int expr>;                                   -- + - * ( ) literals, T::default(), value ids, self.<field>
    let <id> [: [T; n]] = [<int expr | <grid>.get(..)>, …];  -- fixed-size array: one binding per element, in order
    let [a, b, …] = <array id>;   let (a, b, …) = (<e>, …) | <helper>(<grid>, …);
    if <bool expr> { … } [else if <bool expr> { … }]* [else { … }]      -- as a statement or as the tail expression
    for <id> in [<n>, …] { … }   for (<i>, <x>) in <array id>.iter().enumerate() { … }   for <x> in <array id>[.iter()] { … }
    self.<field> = <int expr>;
    return Err(<payload>);  return Ok(());  Err(<payload>)  Ok(())    -- the payload may not mention self or the grid
Normalisations performed (each is an identity of the control-flow tree, so the generated definition is the same
for every spelling):
  * `if c { return r; } rest`  ≡  `if c { r } else { rest }`; an `else if` chain is the nested tree; hence a sequence of
    early returns, an else-if chain of returns and a tail `if … { Err(..) } else { …; Ok(()) }` all give
    `if c then (self, false) else …`. Statements after a branch that may fall through are placed behind that branch.
  * a `for` over an array literal of constants / over a fixed-size local array is unrolled (the length is in the source).
  * a private helper function (free function or `&self` method of the file) called as `let pat = helper(args);` is replaced
    by its straight-line body with the parameters bound to the arguments; its locals keep their names unless they
    are already in use in the definition (then they get a fresh one: alpha-renaming). Helpers are pure: they may read the
    grid and `self` but contain no assignment, no `return` and no control flow.
  * a name bound twice (Rust shadowing) gets a fresh Lean name; block scopes are respected.
"""
import re
from rsexpr import Unsupported, strip_comments, parse_expr, split_statements, find_fn
from rsblock import parse_body, fn_items, const_items, split_top

ROOT = 'deep_causality/src/types/context_types/node_types_adjustable'
POINT_RS = 'dcl_data_structures/src/grid_type/point.rs'
# directory, Rust type, Lean structure name
KINDS = [('adjustable_data', 'AdjustableData', 'Data'),
         ('adjustable_time', 'AdjustableTime', 'Time'),
         ('adjustable_space', 'AdjustableSpace', 'Space'),
         ('adjustable_space_time', 'AdjustableSpaceTime', 'SpaceTime')]
ERRS = {'update': 'UpdateError', 'adjust': 'AdjustmentError'}
LEAN_KEYWORDS = {'at', 'from', 'end', 'in', 'do', 'then', 'else', 'if', 'let', 'have', 'show', 'fun', 'by', 'with',
                 'match', 'def', 'theorem', 'where', 'open', 'namespace', 'section', 'structure', 'instance', 'class',
                 'Type', 'Prop', 'Sort', 'return', 'for', 'mut', 'import', 'deriving', 'example'}
RESERVED = {'grid', 'self', 'Pt', 'Int', 'Nat'}        # names the generated definitions use themselves
COORDS = ['x', 'y', 'z', 't']


def strip_strings(src):
    """string literals carry no behaviour here; replace them by an identifier so that the tokeniser and the
    brace counting never look inside them"""
    return re.sub(r'"(?:[^"\\]|\\.)*"', '__str', src)


def lean_id(name):
    if not re.fullmatch(r'[A-Za-z_][A-Za-z_0-9]*', name):
        raise Unsupported('identifier ' + name)
    if name in RESERVED:
        raise Unsupported(f'local name `{name}` clashes with a name of the generated model')
    return f'«{name}»' if name in LEAN_KEYWORDS else name


# ----------------------------------------------------------------------------------------------
# PointIndex constructors (point.rs)
# ----------------------------------------------------------------------------------------------
def parse_point_ctors(repo):
    """{ 'new3d': (['x','y','z'], {'x':'x','y':'y','z':'z','t':'0'}) , … } from `Self { x, y, z, t: 0, point_type: … }`"""
    src = strip_comments((repo / POINT_RS).read_text())
    m = re.search(r'pub struct PointIndex\s*\{([^}]*)\}', src)
    if not m:
        raise Unsupported('struct PointIndex not found')
    fields = [f.split(':')[0].replace('pub', '').strip() for f in m.group(1).split(',') if f.strip()]
    if fields != ['x', 'y', 'z', 't', 'point_type']:
        raise Unsupported('PointIndex fields changed: ' + str(fields))
    ctors = {}
    for k in (1, 2, 3, 4):
        name = f'new{k}d'
        sig, body = find_fn(src, name)
        ms = re.fullmatch(r'fn ' + name + r'\s*\(([^)]*)\)\s*->\s*Self', sig)
        if not ms:
            raise Unsupported(f'point.rs {name}: signature ' + sig)
        params = []
        for prm in [q.strip() for q in ms.group(1).split(',') if q.strip()]:
            mp = re.fullmatch(r'(\w+)\s*:\s*usize', prm)
            if not mp:
                raise Unsupported(f'point.rs {name}: parameter ' + prm)
            params.append(mp.group(1))
        if len(params) != k:
            raise Unsupported(f'point.rs {name}: expected {k} parameters')
        mb = re.fullmatch(r'\s*Self\s*\{(.*)\}\s*', body, flags=re.S)
        if not mb:
            raise Unsupported(f'point.rs {name}: body is not a single `Self {{ … }}`')
        init = {}
        for item in [q.strip() for q in mb.group(1).split(',') if q.strip()]:
            mi = re.fullmatch(r'(\w+)\s*(?::\s*(.+))?', item, flags=re.S)
            if not mi:
                raise Unsupported(f'point.rs {name}: field initialiser ' + item)
            f, v = mi.group(1), (mi.group(2) or mi.group(1)).strip()
            if f in init:
                raise Unsupported(f'point.rs {name}: field {f} initialised twice')
            if f == 'point_type':
                if not re.fullmatch(r'PointIndexType::\w+', v):
                    raise Unsupported(f'point.rs {name}: point_type initialiser ' + v)
                continue
            if f not in COORDS:
                raise Unsupported(f'point.rs {name}: unknown field ' + f)
            if not (v in params or re.fullmatch(r'\d+', v)):
                raise Unsupported(f'point.rs {name}: initialiser of {f} is neither a parameter nor a literal: ' + v)
            init[f] = v
        if set(init) != set(COORDS):
            raise Unsupported(f'point.rs {name}: not all of x,y,z,t initialised')
        ctors[name] = (params, init)
    return ctors


def point_lean(ctors, ns_comment):
    out = ['/-- `PointIndex` (point.rs) without the `point_type` tag, which no storage reads -/',
           'structure Pt where', '  x : Nat', '  y : Nat', '  z : Nat', '  t : Nat', 'deriving DecidableEq, Repr', '']
    for name in sorted(ctors):
        params, init = ctors[name]
        ps = ' '.join(lean_id(p) for p in params)
        body = ', '.join(f'{f} := {lean_id(init[f]) if not init[f].isdigit() else init[f]}' for f in COORDS)
        out.append(f'def Pt.{name} ({ps} : Nat) : Pt := {{ {body} }}')
    out.append('')
    return out


# ----------------------------------------------------------------------------------------------
# node structs (mod.rs)
# ----------------------------------------------------------------------------------------------
def parse_struct(repo, d, rust_ty):
    src = strip_comments((repo / ROOT / d / 'mod.rs').read_text())
    m = re.search(r'pub struct ' + rust_ty + r'\s*<T>\s*where[^{]*\{([^}]*)\}', src)
    if not m:
        raise Unsupported(f'{d}/mod.rs: struct {rust_ty}<T> not found')
    body = re.sub(r'#\[[^\]]*\]', '', m.group(1))
    fields = []
    for item in [q.strip() for q in body.split(',') if q.strip()]:
        mi = re.fullmatch(r'(?:pub\s+)?(\w+)\s*:\s*([\w:<>]+)', item)
        if not mi:
            raise Unsupported(f'{d}/mod.rs: field ' + item)
        fields.append((mi.group(1), mi.group(2)))
    tfields = [f for f, ty in fields if ty == 'T']
    if not tfields:
        raise Unsupported(f'{d}/mod.rs: no field of type T')
    return tfields, [f for f, ty in fields if ty != 'T']


# ----------------------------------------------------------------------------------------------
# expressions
# ----------------------------------------------------------------------------------------------
class Env:
    """Rust name -> what it stands for: ('pt', lean) | ('val', lean) | ('arr', [lean, …]) | ('num', n) | ('grid',).
    `used` (shared by all scopes of one generated definition) makes every Lean binding name unique, so flattening
    block scopes and inlined helpers can never capture a name."""

    def __init__(self, tfields, ctors, consts, helpers, used=None, vars_=None):
        self.tfields, self.ctors, self.consts, self.helpers = tfields, ctors, consts, helpers
        self.used = used if used is not None else set(RESERVED)
        self.vars = dict(vars_ or {})

    def child(self):
        return Env(self.tfields, self.ctors, self.consts, self.helpers, self.used, self.vars)

    def fresh_scope(self):
        return Env(self.tfields, self.ctors, self.consts, self.helpers, self.used, {})

    def bind(self, name, kind):
        if not re.fullmatch(r'[A-Za-z_][A-Za-z_0-9]*', name):
            raise Unsupported('identifier ' + name)
        lean, k = name, 1
        while lean in self.used:
            lean = f'{name}_{k}'
            k += 1
        self.used.add(lean)
        lean = f'«{lean}»' if lean in LEAN_KEYWORDS else lean
        self.vars[name] = (kind, lean)
        return lean

    def get(self, name, kind=None):
        v = self.vars.get(name)
        if v is None or (kind is not None and v[0] != kind):
            return None
        return v


CMP = {'==': '=', '!=': '≠', '<': '<', '<=': '≤', '>': '>', '>=': '≥'}


def is_default(a):
    return a[0] == 'call' and a[1] == ('path', ['T', 'default']) and a[2] == []


def const_num(a, env):
    """a compile-time index: literal, `const NAME: usize = <literal>` or an unrolled loop variable"""
    if a[0] == 'num':
        return a[1]
    if a[0] == 'paren':
        return const_num(a[1], env)
    if a[0] == 'path' and len(a[1]) == 1:
        v = env.get(a[1][0], 'num')
        if v:
            return v[1]
        if a[1][0] not in env.vars and a[1][0] in env.consts:
            return env.consts[a[1][0]]
    raise Unsupported('not a compile-time index: ' + repr(a)[:60])


def int_expr(a, env):
    k = a[0]
    if k == 'num':
        return str(a[1])
    if k == 'paren':
        return int_expr(a[1], env)
    if k == 'neg':
        return f'(-{int_expr(a[1], env)})'
    if k == 'deref':                   # `*x` for an element reference handed out by `.iter()`
        if a[1][0] == 'path' and len(a[1][1]) == 1 and env.get(a[1][1][0], 'val'):
            return int_expr(a[1], env)
        raise Unsupported('dereference of ' + repr(a[1])[:60])
    if is_default(a):
        return '0'
    if k == 'bin' and a[1] in ('+', '-', '*'):
        return f'({int_expr(a[2], env)} {a[1]} {int_expr(a[3], env)})'
    if k == 'path' and len(a[1]) == 1:
        v = env.get(a[1][0], 'val')
        if not v:
            raise Unsupported(f'`{a[1][0]}` is not a value binding')
        return v[1]
    if k == 'index' and a[1][0] == 'path' and len(a[1][1]) == 1:
        arr = env.get(a[1][1][0], 'arr')
        if not arr:
            raise Unsupported(f'`{a[1][1][0]}` is not an array binding')
        i = const_num(a[2], env)
        if not 0 <= i < len(arr[1]):
            raise Unsupported(f'index {i} out of bounds of `{a[1][1][0]}`')
        return arr[1][i]
    if k == 'field' and a[1] == ('path', ['self']):
        if a[2] not in env.tfields:
            raise Unsupported('self.' + a[2] + ' is not a field of type T')
        return 'self.' + lean_id(a[2])
    raise Unsupported('value expression ' + repr(a)[:80])


def bool_expr(a, env):
    k = a[0]
    if k == 'paren':
        return bool_expr(a[1], env)
    if k == 'not':
        return f'(¬ {bool_expr(a[1], env)})'
    if k == 'bin' and a[1] in CMP:
        return f'({int_expr(a[2], env)} {CMP[a[1]]} {int_expr(a[3], env)})'
    if k == 'bin' and a[1] in ('&&', '||'):
        return f'({bool_expr(a[2], env)} {"∧" if a[1] == "&&" else "∨"} {bool_expr(a[3], env)})'
    raise Unsupported('condition ' + repr(a)[:80])


def is_point_ctor(a):
    return a[0] == 'call' and a[1][0] == 'path' and len(a[1][1]) == 2 and a[1][1][0] == 'PointIndex'


def point_expr(a, env):
    if a[0] == 'path' and len(a[1]) == 1:
        v = env.get(a[1][0], 'pt')
        if not v:
            raise Unsupported(f'`{a[1][0]}` is not a point binding')
        return v[1]
    if is_point_ctor(a):
        ctor = a[1][1][1]
        if ctor not in env.ctors:
            raise Unsupported('PointIndex::' + ctor)
        if len(a[2]) != len(env.ctors[ctor][0]):
            raise Unsupported(f'PointIndex::{ctor}: wrong number of arguments')
        return f'(Pt.{ctor} {" ".join(str(const_num(x, env)) for x in a[2])})'
    raise Unsupported('point expression ' + repr(a)[:80])


def grid_get(a, env):
    """`<grid>.get(<point>)` -> Lean text, else None"""
    if a[0] == 'mcall' and a[1][0] == 'path' and len(a[1][1]) == 1 and env.get(a[1][1][0], 'grid'):
        if a[2] != 'get' or len(a[3]) != 1:
            raise Unsupported(f'{a[1][1][0]}.{a[2]}')
        return f'grid {point_expr(a[3][0], env)}'
    return None


def mentions(a, names):
    """does the expression mention one of the identifiers (as a path head), or contain a block?"""
    if isinstance(a, tuple):
        if a and a[0] == 'path':
            return a[1][0] in names
        if a and a[0] in ('block', 'if', 'match', 'unsafe', 'closure'):
            return True
        return any(mentions(x, names) for x in a[1:])
    if isinstance(a, list):
        return any(mentions(x, names) for x in a)
    return False


# ----------------------------------------------------------------------------------------------
# statements: a body is a control-flow tree; `cont` produces what follows the current block (None: nothing may)
# ----------------------------------------------------------------------------------------------
class Body:
    def __init__(self, where, grid_names):
        self.where, self.grid_names = where, grid_names
        self.depth = 0

    def fail(self, msg):
        raise Unsupported(f'{self.where}: {msg}')

    def result(self, e, env):
        """`Ok(())` / `Err(payload)` -> Lean line, else None"""
        if e[0] == 'call' and e[1] == ('path', ['Ok']) and e[2] == [('unit',)]:
            return '  (self, true)'
        if e[0] == 'call' and e[1] == ('path', ['Err']) and len(e[2]) == 1:
            if mentions(e[2][0], {'self'} | self.grid_names):
                self.fail('error payload touches state: ' + repr(e[2][0])[:80])
            return '  (self, false)'
        return None

    def bind_value(self, env, name, rhs, lines):
        """let name = rhs  for a point / a grid read / an integer / an array"""
        if is_point_ctor(rhs):
            text = point_expr(rhs, env)
            lines.append(f'  let {env.bind(name, "pt")} : Pt := {text}')
            return
        g = grid_get(rhs, env)
        if g is not None:
            lines.append(f'  let {env.bind(name, "val")} : Int := {g}')
            return
        if rhs[0] == 'array':
            texts = []
            for i, x in enumerate(rhs[1]):
                t = grid_get(x, env) or int_expr(x, env)
                ln = env.bind(f'{name}_{i}', 'val')
                lines.append(f'  let {ln} : Int := {t}')
                texts.append(ln)
            env.vars[name] = ('arr', texts)
            return
        if rhs[0] == 'path' and len(rhs[1]) == 1 and env.get(rhs[1][0], 'arr'):
            env.vars[name] = env.get(rhs[1][0], 'arr')          # arrays of `T: Copy` are copied: same values
            return
        text = int_expr(rhs, env)
        lines.append(f'  let {env.bind(name, "val")} : Int := {text}')

    def helper_call(self, rhs, env):
        if rhs[0] == 'call' and rhs[1][0] == 'path':
            p = rhs[1][1]
            if len(p) == 2 and p[0] == 'Self':
                p = p[1:]
            if len(p) == 1 and p[0] in env.helpers and not env.helpers[p[0]]['recv']:
                return p[0], rhs[2]
        if rhs[0] == 'mcall' and rhs[1] == ('path', ['self']) and rhs[2] in env.helpers and env.helpers[rhs[2]]['recv']:
            return rhs[2], rhs[3]
        return None

    def inline(self, env, hname, args, lines):
        """the helper's straight-line body, in a scope of its own; returns the returned components as
        (kind, lean) pairs"""
        if self.depth >= 4:
            self.fail(f'helper {hname}: inlining too deep (recursion?)')
        h = env.helpers[hname]
        if len(args) != len(h['params']):
            self.fail(f'helper {hname}: arity')
        he = env.fresh_scope()
        for (pname, pkind), arg in zip(h['params'], args):
            if pkind == 'grid':
                if not (arg[0] == 'path' and len(arg[1]) == 1 and env.get(arg[1][0], 'grid')):
                    self.fail(f'helper {hname}: the grid argument is not the grid')
                he.vars[pname] = ('grid',)
            elif pkind == 'val':
                text = int_expr(arg, env)
                lines.append(f'  let {he.bind(pname, "val")} : Int := {text}')
            else:
                text = point_expr(arg, env)
                lines.append(f'  let {he.bind(pname, "pt")} : Pt := {text}')
        blk = parse_body(h['body'])
        self.depth += 1
        for st in blk[1]:
            if st[0] != 'let':
                self.fail(f'helper {hname}: only `let` statements are inlined, found ' + repr(st)[:80])
            self.let(he, st, lines, in_helper=hname)
        self.depth -= 1
        tail = blk[2]
        if tail is None:
            self.fail(f'helper {hname} returns nothing')
        comps = tail[1] if tail[0] == 'tuple' else [tail[1] if tail[0] == 'paren' else tail]
        out = []
        for c in comps:
            if c[0] == 'path' and len(c[1]) == 1 and he.get(c[1][0]) and he.get(c[1][0])[0] in ('val', 'pt', 'arr'):
                out.append(he.get(c[1][0]))
            else:
                ln = he.bind(f'{hname}_ret', 'val')
                lines.append(f'  let {ln} : Int := {grid_get(c, he) or int_expr(c, he)}')
                out.append(('val', ln))
        return out

    def let(self, env, st, lines, in_helper=None):
        pat, rhs = st[1], st[3]
        hc = self.helper_call(rhs, env)
        if hc:
            vals = self.inline(env, hc[0], hc[1], lines)
            pats = pat[1] if pat[0] == 'tuple' else [pat]
            if len(pats) != len(vals):
                self.fail(f'helper {hc[0]}: pattern does not match the returned tuple')
            for p, v in zip(pats, vals):
                if p[0] == 'wild':
                    continue
                if p[0] != 'id':
                    self.fail('nested pattern')
                env.vars[p[1]] = v                     # the caller's name for the helper's binding (alias)
            return
        if pat[0] == 'id':
            self.bind_value(env, pat[1], rhs, lines)
            return
        if pat[0] == 'tuple' and rhs[0] == 'tuple' and len(pat[1]) == len(rhs[1]):
            new = []
            for p, x in zip(pat[1], rhs[1]):           # all components are evaluated before any name is bound
                if p[0] not in ('id', 'wild'):
                    self.fail('nested pattern')
                sub = env.child()
                tmp = []
                self.bind_value(sub, p[1] if p[0] == 'id' else '_', x, tmp)
                new.append((p, sub, tmp))
            for p, sub, tmp in new:
                lines.extend(tmp)
                if p[0] == 'id':
                    env.vars[p[1]] = sub.vars[p[1]]
            return
        if pat[0] == 'slice' and rhs[0] == 'path' and len(rhs[1]) == 1 and env.get(rhs[1][0], 'arr'):
            arr = env.get(rhs[1][0], 'arr')[1]
            if len(arr) != len(pat[1]):
                self.fail('array pattern of the wrong length')
            for p, ln in zip(pat[1], arr):
                if p[0] == 'id':
                    env.vars[p[1]] = ('val', ln)
                elif p[0] != 'wild':
                    self.fail('nested pattern')
            return
        self.fail('let pattern / initialiser outside the recognised grammar: ' + repr(st)[:100])

    def iterations(self, env, pat, it):
        """the bindings of each iteration of `for pat in it`, as functions that extend an Env"""
        def arr_of(a):
            if a[0] == 'path' and len(a[1]) == 1 and env.get(a[1][0], 'arr'):
                return env.get(a[1][0], 'arr')[1]
            return None
        if it[0] == 'array' and pat[0] == 'id':
            nums = [const_num(x, env) for x in it[1]]
            return [{pat[1]: ('num', n)} for n in nums]
        base = it
        enum = False
        if base[0] == 'mcall' and base[2] == 'enumerate' and not base[3]:
            enum, base = True, base[1]
        if base[0] == 'mcall' and base[2] == 'iter' and not base[3]:
            base = base[1]
        elif enum:
            self.fail('enumerate() of something other than <array>.iter()')
        arr = arr_of(base)
        if arr is None:
            self.fail('for loop over something other than a fixed-size local array or an array literal of constants')
        if enum:
            if pat[0] != 'tuple' or len(pat[1]) != 2 or any(p[0] not in ('id', 'wild') for p in pat[1]):
                self.fail('for pattern')
            out = []
            for i, ln in enumerate(arr):
                d = {}
                if pat[1][0][0] == 'id':
                    d[pat[1][0][1]] = ('num', i)
                if pat[1][1][0] == 'id':
                    d[pat[1][1][1]] = ('val', ln)
                out.append(d)
            return out
        if pat[0] != 'id':
            self.fail('for pattern')
        return [{pat[1]: ('val', ln)} for ln in arr]

    def seq(self, stmts, tail, env, cont):
        """Lean lines of `stmts; tail` followed by `cont()`; every path ends in `(self, b)`"""
        lines = []
        for i, st in enumerate(stmts):
            k = st[0]

            def rest(i=i):
                return self.seq(stmts[i + 1:], tail, env.child(), cont)     # a copy: `rest` may be placed behind several branches
            if k == 'let':
                self.let(env, st, lines)
                continue
            if k == 'assign':
                lhs = st[1]
                if not (lhs[0] == 'field' and lhs[1] == ('path', ['self'])):
                    self.fail('assignment to something other than self.<field>')
                if lhs[2] not in env.tfields:
                    self.fail(f'assignment to self.{lhs[2]}, which is not a field of type T')
                lines.append(f'  let self := {{ self with {lean_id(lhs[2])} := {int_expr(st[2], env)} }}')
                continue
            if k == 'return':
                r = self.result(st[1], env) if st[1] is not None else None
                if r is None:
                    self.fail('return of something other than Ok(()) / Err(..)')
                if i + 1 < len(stmts) or tail is not None:
                    self.fail('unreachable statements after return')
                return lines + [r]
            if k == 'expr' and st[1][0] == 'if':
                return lines + self.if_tree(st[1], env, rest)
            if k == 'for':
                its = self.iterations(env, st[1], st[2])
                body = st[3]
                bstmts = list(body[1])
                if body[2] is not None:
                    if body[2][0] != 'if':
                        self.fail('for body with a tail expression')
                    bstmts.append(('expr', body[2]))       # an `if` without value in tail position is a statement

                def run(j):
                    if j == len(its):
                        return rest()
                    sub = env.child()
                    sub.vars.update(its[j])
                    return self.seq(bstmts, None, sub, lambda: run(j + 1))
                return lines + run(0)
            self.fail('statement outside the recognised grammar: ' + repr(st)[:120])
        if tail is not None:
            if tail[0] == 'if':
                return lines + self.if_tree(tail, env, None)
            r = self.result(tail, env)
            if r is None:
                self.fail('tail expression is neither Ok(()) nor Err(..): ' + repr(tail)[:80])
            return lines + [r]
        if cont is None:
            self.fail('control reaches the end of a block that must produce the result')
        return lines + cont()

    def if_tree(self, e, env, cont):
        cond = bool_expr(e[1], env)
        then = self.seq(e[2][1], e[2][2], env.child(), cont)
        if e[3] is None:
            if cont is None:
                self.fail('`if` without `else` where a result is required')
            els = cont()
        elif e[3][0] == 'if':
            els = self.if_tree(e[3], env, cont)
        else:
            els = self.seq(e[3][1], e[3][2], env.child(), cont)
        if len(then) == 1:
            return [f'  if {cond} then {then[0].strip()} else'] + els
        return [f'  if {cond} then ('] + ['  ' + l for l in then[:-1]] + ['  ' + then[-1] + ') else'] + els


def parse_params(where, params):
    """`&mut self, g: &ArrayGrid<T, W, H, D, C>, v: T, p: PointIndex` -> (receiver | None, [(name, kind)])"""
    ps = split_top(params)
    recv = None
    if ps and re.fullmatch(r'&(mut )?self', ps[0]):
        recv, ps = ps[0], ps[1:]
    out = []
    for p in ps:
        m = re.fullmatch(r'(\w+)\s*:\s*(.+)', p, flags=re.S)
        if not m:
            raise Unsupported(f'{where}: parameter {p}')
        ty = ''.join(m.group(2).split())
        if re.fullmatch(r'&ArrayGrid<T,W,H,D,C>', ty):
            kind = 'grid'
        elif ty == 'T':
            kind = 'val'
        elif ty == 'PointIndex':
            kind = 'pt'
        else:
            raise Unsupported(f'{where}: parameter type {m.group(2)}')
        out.append((m.group(1), kind))
    return recv, out


GENERICS = '<const W: usize, const H: usize, const D: usize, const C: usize>'


def gen_adjustable(repo):
    ctors = parse_point_ctors(repo)
    out = ['-- GENERATED by /verif/tools/rs2lean.py adjustable from /repo — do not edit, regenerated on every check run',
           '/-! `Adjustable::update` / `Adjustable::adjust` of the four adjustable context nodes, statement by statement.',
           'Values of the generic `T` are `Int` (no overflow: outside the property). A function returns the node as it',
           'stands when the Rust function returns (also on the `return Err` paths) and `true` for `Ok(())`. -/',
           'namespace Gen.Adjustable', '']
    out += point_lean(ctors, '')
    for d, rust_ty, name in KINDS:
        tfields, other = parse_struct(repo, d, rust_ty)
        src = strip_strings(strip_comments((repo / ROOT / d / 'adjustable.rs').read_text()))
        impls = re.findall(r'impl\s*<T>\s*Adjustable<T>\s*for\s*(\w+)<T>', src)
        if impls != [rust_ty]:
            raise Unsupported(f'{d}/adjustable.rs: expected exactly `impl<T> Adjustable<T> for {rust_ty}<T>`, found {impls}')
        items = fn_items(src)
        # `update` / `adjust` must be the trait's methods: inside the `impl Adjustable<T> for …` block. An inherent method of
        # the same name would leave the trait with its default `Ok(())` body (calls through the trait then do nothing).
        mi = re.search(r'impl\s*<T>\s*Adjustable<T>\s*for\s*\w+<T>', src)
        b0 = src.index('{', mi.end())
        depth, b1 = 1, b0 + 1
        while depth:
            depth += (src[b1] == '{') - (src[b1] == '}')
            b1 += 1
        for it in items:
            if it['name'] in ('update', 'adjust') and not (b0 < it['start'] and it['end'] <= b1):
                raise Unsupported(f'{d}/adjustable.rs: fn {it["name"]} is not inside `impl Adjustable<T> for {rust_ty}<T>`')
        names = [it['name'] for it in items]
        if len(set(names)) != len(names) or not {'update', 'adjust'} <= set(names):
            raise Unsupported(f'{d}/adjustable.rs: functions {names} (expected update and adjust, plus private helpers)')
        consts = {}
        for cname, cty, ctext in const_items(src):
            if cty == 'usize' and re.fullmatch(r'\d+', ctext):
                consts[cname] = int(ctext)              # other constants (message tables …) may only occur in error payloads
        helpers = {}
        for it in items:
            if it['name'] in ('update', 'adjust'):
                continue
            if it['vis']:
                raise Unsupported(f'{d}/adjustable.rs: unexpected public function {it["name"]}')
            try:
                recv, hp = parse_params(f'{d}/adjustable.rs {it["name"]}', it['params'])
            except Unsupported:
                continue                                   # not a helper this translator can inline; calling it is rejected
            if recv == '&mut self':
                continue
            helpers[it['name']] = {'recv': recv, 'params': hp, 'body': it['body']}
        out += [f'/-- `{rust_ty}<T>`: the fields of type `T` (not modelled, never assigned: {", ".join(other) or "-"}) -/',
                f'structure {name} where'] + [f'  {lean_id(f)} : Int' for f in tfields] + ['deriving DecidableEq, Repr', '']
        for fname in ('update', 'adjust'):
            it = next(x for x in items if x['name'] == fname)
            where = f'{d}/adjustable.rs {fname}'
            recv, ps = parse_params(where, it['params'])
            if (not it['sig'].startswith(f'fn {fname}{GENERICS}(') or recv != '&mut self' or [k for _, k in ps] != ['grid']
                    or it['ret'] != f'Result<(), {ERRS[fname]}>'):
                raise Unsupported(f'{where}: signature not recognised: ' + it['sig'])
            env = Env(tfields, ctors, consts, helpers)
            env.vars[ps[0][0]] = ('grid',)
            blk = parse_body(it['body'])
            out.append(f'def {name}.{fname} (self : {name}) (grid : Pt → Int) : {name} × Bool :=')
            out += Body(where, {ps[0][0]}).seq(blk[1], blk[2], env, None)
            out.append('')
    out += ['end Gen.Adjustable', '']
    return '\n'.join(out)


def install(register):
    def guarded(repo):
        # the generator only returns text (rs2lean.py writes it, whole, when it changed); any unexpected exception on
        # unforeseen input is a rejection of the source as well, never a crash of the translator run
        try:
            return gen_adjustable(repo)
        except Unsupported:
            raise
        except Exception as ex:      # noqa: BLE001
            raise Unsupported(f'adjustable: internal {type(ex).__name__}: {ex}')
    register('adjustable', 'Adjustable.lean')(guarded)
