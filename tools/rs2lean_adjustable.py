"""rs2lean generator `adjustable` (C16): the eight `update`/`adjust` bodies of
deep_causality/src/types/context_types/node_types_adjustable/*/adjustable.rs -> Gen/Adjustable.lean.

Every function becomes  `def <Kind>.<fn> (self : <Kind>) (grid : Pt → Int) : <Kind> × Bool`
returning the node *as it stands when the Rust function returns* — also on the `return Err(..)` paths, so
that an assignment to `self.f` that precedes a later early return shows up as a partial write — and
`true` for `Ok(())`, `false` for `Err(_)`.

Values of the generic `T` are `Int` (`T::default()` = 0, `+`/`-`/`*` exact): overflow of a concrete `T`
is outside the property and outside this model. The grid is a function of the `PointIndex` handed to
`ArrayGrid::get`; the constructors `PointIndex::new1d…new4d` are translated from point.rs.

Recognised statement grammar (anything else raises Unsupported => the proof obligations break):
    let <id> = PointIndex::new<k>d(<nat literal>, …);
    let <id> = array_grid.get(<point id> | PointIndex::new<k>d(…));
    let <id> = <int expr>;                                   -- + - * ( ) literals, T::default(), value ids, self.<field>
    if <bool expr> { return Err(<expr>); }                   -- == != < <= > >= && || ! over int exprs
    self.<field> = <int expr>;
    Ok(())                                                   -- tail expression, must be last
"""
import re
from rsexpr import Unsupported, strip_comments, parse_expr, split_statements, find_fn

ROOT = 'deep_causality/src/types/context_types/node_types_adjustable'
POINT_RS = 'dcl_data_structures/src/grid_type/point.rs'
# directory, Rust type, Lean structure name
KINDS = [('adjustable_data', 'AdjustableData', 'Data'),
         ('adjustable_time', 'AdjustableTime', 'Time'),
         ('adjustable_space', 'AdjustableSpace', 'Space'),
         ('adjustable_space_time', 'AdjustableSpaceTime', 'SpaceTime')]
ERRS = {'update': 'UpdateError', 'adjust': 'AdjustmentError'}
LEAN_KEYWORDS = {'at', 'from', 'end', 'in', 'do', 'then', 'else', 'if', 'let', 'have', 'show', 'fun', 'by', 'with',
                 'match', 'def', 'theorem', 'where', 'open', 'namespace', 'section', 'structure', 'instance', 'class',
                 'Type', 'Prop', 'Sort', 'return', 'for', 'mut', 'import', 'deriving', 'example'}
RESERVED = {'grid', 'self', 'Pt', 'Int', 'Nat'}        # names the generated definitions use themselves
COORDS = ['x', 'y', 'z', 't']


def strip_strings(src):
    """string literals carry no behaviour here; replace them by an identifier so that the tokeniser and the
    brace counting never look inside them"""
    return re.sub(r'"(?:[^"\\]|\\.)*"', '__str', src)


def lean_id(name):
    if not re.fullmatch(r'[A-Za-z_][A-Za-z_0-9]*', name):
        raise Unsupported('identifier ' + name)
    if name in RESERVED:
        raise Unsupported(f'local name `{name}` clashes with a name of the generated model')
    return f'«{name}»' if name in LEAN_KEYWORDS else name


# ----------------------------------------------------------------------------------------------
# PointIndex constructors (point.rs)
# ----------------------------------------------------------------------------------------------
def parse_point_ctors(repo):
    """{ 'new3d': (['x','y','z'], {'x':'x','y':'y','z':'z','t':'0'}) , … } from `Self { x, y, z, t: 0, point_type: … }`"""
    src = strip_comments((repo / POINT_RS).read_text())
    m = re.search(r'pub struct PointIndex\s*\{([^}]*)\}', src)
    if not m:
        raise Unsupported('struct PointIndex not found')
    fields = [f.split(':')[0].replace('pub', '').strip() for f in m.group(1).split(',') if f.strip()]
    if fields != ['x', 'y', 'z', 't', 'point_type']:
        raise Unsupported('PointIndex fields changed: ' + str(fields))
    ctors = {}
    for k in (1, 2, 3, 4):
        name = f'new{k}d'
        sig, body = find_fn(src, name)
        ms = re.fullmatch(r'fn ' + name + r'\s*\(([^)]*)\)\s*->\s*Self', sig)
        if not ms:
            raise Unsupported(f'point.rs {name}: signature ' + sig)
        params = []
        for prm in [q.strip() for q in ms.group(1).split(',') if q.strip()]:
            mp = re.fullmatch(r'(\w+)\s*:\s*usize', prm)
            if not mp:
                raise Unsupported(f'point.rs {name}: parameter ' + prm)
            params.append(mp.group(1))
        if len(params) != k:
            raise Unsupported(f'point.rs {name}: expected {k} parameters')
        mb = re.fullmatch(r'\s*Self\s*\{(.*)\}\s*', body, flags=re.S)
        if not mb:
            raise Unsupported(f'point.rs {name}: body is not a single `Self {{ … }}`')
        init = {}
        for item in [q.strip() for q in mb.group(1).split(',') if q.strip()]:
            mi = re.fullmatch(r'(\w+)\s*(?::\s*(.+))?', item, flags=re.S)
            if not mi:
                raise Unsupported(f'point.rs {name}: field initialiser ' + item)
            f, v = mi.group(1), (mi.group(2) or mi.group(1)).strip()
            if f in init:
                raise Unsupported(f'point.rs {name}: field {f} initialised twice')
            if f == 'point_type':
                if not re.fullmatch(r'PointIndexType::\w+', v):
                    raise Unsupported(f'point.rs {name}: point_type initialiser ' + v)
                continue
            if f not in COORDS:
                raise Unsupported(f'point.rs {name}: unknown field ' + f)
            if not (v in params or re.fullmatch(r'\d+', v)):
                raise Unsupported(f'point.rs {name}: initialiser of {f} is neither a parameter nor a literal: ' + v)
            init[f] = v
        if set(init) != set(COORDS):
            raise Unsupported(f'point.rs {name}: not all of x,y,z,t initialised')
        ctors[name] = (params, init)
    return ctors


def point_lean(ctors, ns_comment):
    out = ['/-- `PointIndex` (point.rs) without the `point_type` tag, which no storage reads -/',
           'structure Pt where', '  x : Nat', '  y : Nat', '  z : Nat', '  t : Nat', 'deriving DecidableEq, Repr', '']
    for name in sorted(ctors):
        params, init = ctors[name]
        ps = ' '.join(lean_id(p) for p in params)
        body = ', '.join(f'{f} := {lean_id(init[f]) if not init[f].isdigit() else init[f]}' for f in COORDS)
        out.append(f'def Pt.{name} ({ps} : Nat) : Pt := {{ {body} }}')
    out.append('')
    return out


# ----------------------------------------------------------------------------------------------
# node structs (mod.rs)
# ----------------------------------------------------------------------------------------------
def parse_struct(repo, d, rust_ty):
    src = strip_comments((repo / ROOT / d / 'mod.rs').read_text())
    m = re.search(r'pub struct ' + rust_ty + r'\s*<T>\s*where[^{]*\{([^}]*)\}', src)
    if not m:
        raise Unsupported(f'{d}/mod.rs: struct {rust_ty}<T> not found')
    body = re.sub(r'#\[[^\]]*\]', '', m.group(1))
    fields = []
    for item in [q.strip() for q in body.split(',') if q.strip()]:
        mi = re.fullmatch(r'(?:pub\s+)?(\w+)\s*:\s*([\w:<>]+)', item)
        if not mi:
            raise Unsupported(f'{d}/mod.rs: field ' + item)
        fields.append((mi.group(1), mi.group(2)))
    tfields = [f for f, ty in fields if ty == 'T']
    if not tfields:
        raise Unsupported(f'{d}/mod.rs: no field of type T')
    return tfields, [f for f, ty in fields if ty != 'T']


# ----------------------------------------------------------------------------------------------
# expressions
# ----------------------------------------------------------------------------------------------
class Env:
    def __init__(self, tfields, ctors):
        self.tfields, self.ctors = tfields, ctors
        self.kind = {}           # local name -> 'pt' | 'val'


CMP = {'==': '=', '!=': '≠', '<': '<', '<=': '≤', '>': '>', '>=': '≥'}


def is_default(a):
    return a[0] == 'call' and a[1] == ('path', ['T', 'default']) and a[2] == []


def int_expr(a, env):
    k = a[0]
    if k == 'num':
        return str(a[1])
    if k == 'paren':
        return int_expr(a[1], env)
    if k == 'neg':
        return f'(-{int_expr(a[1], env)})'
    if is_default(a):
        return '0'
    if k == 'bin' and a[1] in ('+', '-', '*'):
        return f'({int_expr(a[2], env)} {a[1]} {int_expr(a[3], env)})'
    if k == 'path' and len(a[1]) == 1:
        n = a[1][0]
        if env.kind.get(n) != 'val':
            raise Unsupported(f'`{n}` is not a value binding')
        return lean_id(n)
    if k == 'field' and a[1] == ('path', ['self']):
        if a[2] not in env.tfields:
            raise Unsupported('self.' + a[2] + ' is not a field of type T')
        return 'self.' + lean_id(a[2])
    raise Unsupported('value expression ' + repr(a)[:80])


def bool_expr(a, env):
    k = a[0]
    if k == 'paren':
        return bool_expr(a[1], env)
    if k == 'not':
        return f'(¬ {bool_expr(a[1], env)})'
    if k == 'bin' and a[1] in CMP:
        return f'({int_expr(a[2], env)} {CMP[a[1]]} {int_expr(a[3], env)})'
    if k == 'bin' and a[1] in ('&&', '||'):
        return f'({bool_expr(a[2], env)} {"∧" if a[1] == "&&" else "∨"} {bool_expr(a[3], env)})'
    raise Unsupported('condition ' + repr(a)[:80])


def point_expr(a, env):
    if a[0] == 'path' and len(a[1]) == 1:
        if env.kind.get(a[1][0]) != 'pt':
            raise Unsupported(f'`{a[1][0]}` is not a point binding')
        return lean_id(a[1][0])
    if a[0] == 'call' and a[1][0] == 'path' and len(a[1][1]) == 2 and a[1][1][0] == 'PointIndex':
        ctor = a[1][1][1]
        if ctor not in env.ctors:
            raise Unsupported('PointIndex::' + ctor)
        if len(a[2]) != len(env.ctors[ctor][0]):
            raise Unsupported(f'PointIndex::{ctor}: wrong number of arguments')
        args = []
        for x in a[2]:
            if x[0] != 'num':
                raise Unsupported(f'PointIndex::{ctor}: argument is not a literal')
            args.append(str(x[1]))
        return f'(Pt.{ctor} {" ".join(args)})'
    raise Unsupported('point expression ' + repr(a)[:80])


# ----------------------------------------------------------------------------------------------
# statements
# ----------------------------------------------------------------------------------------------
def translate_body(where, body, env):
    lines, done = [], False
    for st in split_statements(body):
        if done:
            raise Unsupported(f'{where}: statement after the tail expression: ' + st)
        m = re.fullmatch(r'let (\w+) = (.+);', st)
        if m:
            name, rhs = m.group(1), parse_expr(m.group(2))
            if rhs[0] == 'call' and rhs[1][0] == 'path' and rhs[1][1][:1] == ['PointIndex']:
                lines.append(f'  let {lean_id(name)} : Pt := {point_expr(rhs, env)}')
                env.kind[name] = 'pt'
            elif rhs[0] == 'mcall' and rhs[1] == ('path', ['array_grid']):
                if rhs[2] != 'get' or len(rhs[3]) != 1:
                    raise Unsupported(f'{where}: array_grid.{rhs[2]}')
                lines.append(f'  let {lean_id(name)} : Int := grid {point_expr(rhs[3][0], env)}')
                env.kind[name] = 'val'
            else:
                lines.append(f'  let {lean_id(name)} : Int := {int_expr(rhs, env)}')
                env.kind[name] = 'val'
            continue
        m = re.fullmatch(r'if (.+?) \{ return Err\((.+)\) ?; \}', st)
        if m:
            parse_expr(m.group(2))          # the payload must at least be an expression (no statements hidden in it)
            if re.search(r'\bself\b|\barray_grid\b|=', m.group(2)):
                raise Unsupported(f'{where}: error payload touches state: ' + m.group(2))
            lines.append(f'  if {bool_expr(parse_expr(m.group(1)), env)} then (self, false) else')
            continue
        m = re.fullmatch(r'self\.(\w+) = (.+);', st)
        if m:
            f = m.group(1)
            if f not in env.tfields:
                raise Unsupported(f'{where}: assignment to self.{f}, which is not a field of type T')
            lines.append(f'  let self := {{ self with {lean_id(f)} := {int_expr(parse_expr(m.group(2)), env)} }}')
            continue
        if st == 'Ok(())':
            lines.append('  (self, true)')
            done = True
            continue
        raise Unsupported(f'{where}: statement outside the recognised grammar: ' + st)
    if not done:
        raise Unsupported(f'{where}: body does not end in Ok(())')
    return lines


SIG = (r'fn (update|adjust)<const W: usize, const H: usize, const D: usize, const C: usize>\( &mut self, '
       r'array_grid: &ArrayGrid<T, W, H, D, C>, \) -> Result<\(\), (\w+)>')


def gen_adjustable(repo):
    ctors = parse_point_ctors(repo)
    out = ['-- GENERATED by /verif/tools/rs2lean.py adjustable from /repo — do not edit, regenerated on every check run',
           '/-! `Adjustable::update` / `Adjustable::adjust` of the four adjustable context nodes, statement by statement.',
           'Values of the generic `T` are `Int` (no overflow: outside the property). A function returns the node as it',
           'stands when the Rust function returns (also on the `return Err` paths) and `true` for `Ok(())`. -/',
           'namespace Gen.Adjustable', '']
    out += point_lean(ctors, '')
    for d, rust_ty, name in KINDS:
        tfields, other = parse_struct(repo, d, rust_ty)
        src = strip_strings(strip_comments((repo / ROOT / d / 'adjustable.rs').read_text()))
        impls = re.findall(r'impl\s*<T>\s*Adjustable<T>\s*for\s*(\w+)<T>', src)
        if impls != [rust_ty]:
            raise Unsupported(f'{d}/adjustable.rs: expected exactly `impl<T> Adjustable<T> for {rust_ty}<T>`, found {impls}')
        fns = re.findall(r'\bfn\s+(\w+)', src)
        if sorted(fns) != ['adjust', 'update']:
            raise Unsupported(f'{d}/adjustable.rs: functions {fns} (expected update and adjust)')
        out += [f'/-- `{rust_ty}<T>`: the fields of type `T` (not modelled, never assigned: {", ".join(other) or "-"}) -/',
                f'structure {name} where'] + [f'  {lean_id(f)} : Int' for f in tfields] + ['deriving DecidableEq, Repr', '']
        for fname in ('update', 'adjust'):
            sig, body = find_fn(src, fname)
            ms = re.fullmatch(SIG, sig)
            if not ms or ms.group(2) != ERRS[fname]:
                raise Unsupported(f'{d}/adjustable.rs {fname}: signature not recognised: ' + sig)
            env = Env(tfields, ctors)
            out.append(f'def {name}.{fname} (self : {name}) (grid : Pt → Int) : {name} × Bool :=')
            out += translate_body(f'{d}/adjustable.rs {fname}', body, env)
            out.append('')
    out += ['end Gen.Adjustable', '']
    return '\n'.join(out)


def install(register):
    def guarded(repo):
        # the generator only returns text (rs2lean.py writes it, whole, when it changed); any unexpected exception on
        # unforeseen input is a rejection of the source as well, never a crash of the translator run
        try:
            return gen_adjustable(repo)
        except Unsupported:
            raise
        except Exception as ex:      # noqa: BLE001
            raise Unsupported(f'adjustable: internal {type(ex).__name__}: {ex}')
    register('adjustable', 'Adjustable.lean')(guarded)
