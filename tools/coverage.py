#!/usr/bin/env python3
"""coverage.py [tier] — how much of the code each property is anchored in do the correspondence runs execute?
One-off analysis tool (not part of any check): builds the harness with `-C instrument-coverage` on the nightly toolchain into
/tmp/cov, pipes the generated cases of every property through it, and prints line coverage of the anchored files.
Build first (LLVM_PROFILE_FILE keeps the instrumented proc-macros/build scripts from dropping *.profraw files into /repo):
  cd /verif/harness && LLVM_PROFILE_FILE=/tmp/cov/raw/build-%p.profraw RUSTFLAGS='--cfg deep_causality_verif -C instrument-coverage' \
      cargo +nightly build --offline --target-dir /tmp/cov/target"""
import sys, os, json, random, subprocess, importlib, glob, re
V = os.path.dirname(os.path.dirname(os.path.abspath(__file__)))
sys.path.insert(0, os.path.join(V, 'checks'))
tier = sys.argv[1] if len(sys.argv) > 1 else 'quick'
BIN = '/tmp/cov/target/debug/dcv-harness'
TC = os.path.expanduser('~/.rustup/toolchains/nightly-x86_64-unknown-linux-gnu/lib/rustlib/x86_64-unknown-linux-gnu/bin')
props = [json.loads(l) for l in open(os.path.join(V, 'properties.jsonl'))]
out = {}
for p in props:
    pid = p['id']
    mod = importlib.import_module(pid.lower())
    rng = random.Random(1 * 1000003 + (17 if tier == 'thorough' else 0))
    cases = (list(mod.corpus()) if hasattr(mod, 'corpus') else []) + list(mod.generate(rng, tier))
    cases = [c for c in cases if c.build == 'safe']
    inp = '\n'.join('\n'.join(c.lines(i)) for i, c in enumerate(cases)) + '\n'
    d = f'/tmp/cov/raw/{pid}'
    subprocess.run(['rm', '-rf', d]); os.makedirs(d)
    env = dict(os.environ, LLVM_PROFILE_FILE=f'{d}/%p-%m.profraw')
    subprocess.run([BIN, pid], input=inp, capture_output=True, text=True, env=env, timeout=3600)
    raws = glob.glob(f'{d}/*.profraw')
    subprocess.run([f'{TC}/llvm-profdata', 'merge', '-sparse', '-o', f'{d}/m.profdata'] + raws, check=True)
    files = ['/repo/' + f for f in p['anchors']['files']]
    r = subprocess.run([f'{TC}/llvm-cov', 'report', BIN, f'-instr-profile={d}/m.profdata'] + files, capture_output=True, text=True)
    rows = []
    for line in r.stdout.split('\n'):
        m = re.match(r'(\S+\.rs)\s+(\d+)\s+(\d+)\s+([\d.]+)%\s+(\d+)\s+(\d+)\s+([\d.]+)%\s+(\d+)\s+(\d+)\s+([\d.]+)%', line)
        if m:
            rows.append((os.path.basename(m.group(1)), int(m.group(8)), int(m.group(9)), float(m.group(10))))
    out[pid] = rows
    tot = sum(r[1] for r in rows); miss = sum(r[2] for r in rows)
    print(f'{pid}: {len(cases)} cases; lines {tot - miss}/{tot} = {100.0 * (tot - miss) / max(1, tot):.1f}% ;',
          ', '.join(f'{n} {c:.0f}%' for n, _, _, c in rows))
json.dump(out, open('/tmp/cov/summary.json', 'w'), indent=1)
