#!/usr/bin/env python3
"""mk_benign_task.py <group-name> <count-per-property> <Cxx> [<Cyy> …] [--focus "<extra paragraph>"]
Creates /tmp/ben-<group>/{repo (detached worktree of /repo HEAD), out/, task.md}: the brief for a fresh sub-agent that is to write
behaviour-preserving changes (for false-alarm testing). The brief contains only the text of the properties — nothing from /verif."""
import sys, os, json, subprocess
args = sys.argv[1:]
focus = ''
if '--focus' in args:
    i = args.index('--focus'); focus = args[i + 1]; args = args[:i] + args[i + 2:]
g, count, ids = args[0], args[1], args[2:]
props = {json.loads(l)['id']: json.loads(l) for l in open(os.path.join(os.path.dirname(os.path.abspath(__file__)), '..', 'properties.jsonl'))}
d = f'/tmp/ben-{g}'
os.makedirs(d + '/out', exist_ok=True)
subprocess.run(['git', '-C', '/repo', 'worktree', 'add', '--detach', d + '/repo', 'HEAD'], capture_output=True)
txt = ''
for i in ids:
    p = props[i]
    txt += (f"### Property {i}: {p['title']}\n\nStatement: {p['statement']}\n\nQuantification: {p['quantifier']['text']}\n\n"
            f"Why the existing tests cannot settle it: {p['why_tests_cant']}\n\nCode it is anchored in: {', '.join(p['anchors']['files'])}\n\n")
open(d + '/task.md', 'w').write(f"""You are helping to evaluate a verification effort for the Rust workspace deepcausality-rs/deep_causality (a causal-reasoning library with
a Disruptor-style ring buffer, sliding windows, grids and a graph store). You get the text of semantic properties the code is supposed
to satisfy, and your own scratch git worktree of the code at {d}/repo (a detached worktree; work ONLY there and under {d}/out).
Strictly off limits: the directory /verif (do not list, read or search it) and the original checkout /repo (do not modify it). No network.

{txt}
## Task

A verifier for these properties must stay quiet on code where the property still holds. For EACH property above produce {count} *distinct*
**behaviour-preserving** source changes to the library code in the files the property is anchored in (or code they call) — the kind of
change a maintainer makes every week and that must NOT be reported as a violation:
 (a) the property is exactly as true after the change as before (the externally observable behaviour of the public API relevant to the
     property is unchanged for every input, history and interleaving — including which inputs panic or return errors, and for the ring
     buffer including the set of possible interleavings' outcomes),
 (b) it compiles (`cargo build --workspace --offline`) and, if you touch dcl_data_structures, also with the `unsafe` feature
     (`cargo build -p dcl_data_structures --features unsafe --offline`),
 (c) the repository's existing test suite passes unedited: `cd {d}/repo && cargo nextest run --workspace --no-fail-fast --offline` (803 tests).
Vary the intrusiveness between your changes for one property; use each of these levels at least once per property where the code allows:
  L1 cosmetic: rename locals/private fields/private helpers, reorder independent statements or private items, reformat, add comments/debug_assert!s that always hold,
  L2 local restructuring: if/else <-> match, loop <-> iterator chain, early return <-> nested if, extract or inline a private helper, introduce a
     local variable for a repeated sub-expression, `x % n` <-> `x & (n-1)` only where n is provably a power of two, `a + 1 > b` <-> `a >= b`,
  L3 deeper but still equivalent: a different but equivalent algorithm or data layout for an internal step (e.g. compute an index in a different
     but equal way, cache a value that provably cannot change, replace a hand-written loop with a std function of identical semantics,
     swap the order of two commuting operations, strengthen a memory ordering (Relaxed -> Acquire/Release/SeqCst) but never weaken one).
Do not change public signatures, do not touch tests, Cargo files or CI files.
{focus}
For each change k (numbered per property, e.g. C19-b1, C19-b2) write into {d}/out/<id>-b<k>/ :
  - patch.diff   : `git diff` against HEAD of the worktree (only library source files),
  - notes.md     : level (L1/L2/L3), what was changed, and a short argument why behaviour is preserved for every input; the commands you ran and what you observed.
You MUST verify (b) and (c) yourself for every change and leave the worktree clean
(`git -C {d}/repo checkout -- . && git -C {d}/repo clean -fd`) after each change. Build output may live in the worktree's target directory.
Note: a cfg flag `deep_causality_verif` exists in dcl_data_structures (file ring_buffer/verif_sync.rs and cfg-guarded imports); it is
verification scaffolding — leave those lines alone and make sure a change to the ring buffer also compiles with
`RUSTFLAGS='--cfg deep_causality_verif'` (use a separate --target-dir for that build).
Final message: a table of the changes (id, level, files touched, one-line description, test-suite result).
""")
print(d)
