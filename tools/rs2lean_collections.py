"""rs2lean generator `collections` (C18): the default methods of the collection-reasoning traits -> Gen/Collections.lean.

Sources read (all from the *current* tree):
    deep_causality/src/utils/math_utils.rs                                  ZERO, MINUS_ONE, abs_num
    deep_causality/src/types/reasoning_types/assumption/{mod.rs,assumable.rs}   struct Assumption, new, impl Assumable
    deep_causality/src/protocols/assumable/mod.rs                           Assumable (required), AssumableReasoning (defaults)
    deep_causality/src/protocols/inferable/mod.rs                           Inferable (required + defaults), InferableReasoning
    deep_causality/src/protocols/observable/mod.rs                          Observable (required + defaults), ObservableReasoning
    deep_causality/src/extensions/{assumable,inferable,observable}/mod.rs,
    types/reasoning_types/{inference/inferable.rs,observation/observable.rs}    only to refuse an override of a default method

What is emitted (one Lean definition per Rust method, same name, in dependency order):
  * members are abstract: a trait's *required* methods become the fields of a dictionary (`AssumableDict`, `InferableDict`,
    `ObservableDict`) over an arbitrary member type `ι`; `&self`-only methods are readers `ι → Bool | κ`, methods that take data
    are state-passing `ι → δ → ι × Bool` (interior mutability); the member trait's *provided* methods are fields too (a member
    type may override them: a call `x.is_inferable()` dispatches to the type's implementation), while their default bodies are
    the definitions `Inferable.is_inferable …`; that a type keeps the defaults is a hypothesis in Props/C18Gen.lean, and that no
    type of the repository overrides one is checked here (OVERRIDE_FILES);
  * the collection is what the default methods can see of it: `Coll ι = { len, is_empty, get_all_items }` (the required methods);
  * member values (`NumericalValue` that comes out of a member or in through a parameter) have the opaque type `κ`; comparing
    them is abstract: `K.total_cmp`, `K.approx_equal`, `K.ge`, `K.gt`, `K.eq` (`a < b` is emitted as `K.gt b a`, `a <= b` as
    `K.ge b a`, `a != b` as `!K.eq a b` — the IEEE/`PartialOrd` identities); arithmetic on them goes through `K.val : κ → Rat`;
  * computed `NumericalValue`s (counts `as NumericalValue`, quotients, `* 100.0`) are exact rationals `Rat`;
  * `Arc<RwLock<bool>>` / `RefCell<bool>` / … fields are plain `Bool` cells; a method that stores to a cell returns the struct as it
    stands when the function returns together with its result (the sequence of stores is kept as a sequence of `let self := …`).

Recognised grammar (anything else raises Unsupported => the proof obligations of C18 count as broken):
    block      ::= { stmt* [expr] }
    stmt       ::= let [mut] x [: ty] = expr ;  |  for x in expr { [let…;]* if cond { return <bool literal>; } }
                |  for x in expr { x.<state-passing member method>(args); } | expr.for_each(|x| { … })   (whole body of a `()` method)
                |  if cond { return expr; }  |  if cond { stores } [else { stores }]  |  *guard = expr ;  |  return expr ;
                |  drop(guard);
                |  x = e; | x op= e; | x.retain(|a| c); | x.push(a); | if c { updates } [else { updates }]       (x a `let mut` local)
                |  for v in expr { updates of ONE `let mut` local }  |  while let Some(v) = it.next() { … }   (it a fresh iterator)
    expr       ::= literal | x | self.m(args) | x.m(args) | f(args) | (self.fnfield)(x) | e as NumericalValue|f64|usize
                |  e + - * / e | e == != < <= > >= e | e && e | e || e | !e | -e | &e | *e | (e) | if c { e } else { e }
                |  match e { pat [| pat]* => e, … } | if let pat = e { e } else { e } | matches!(e, pat [| pat]*)
                |  Ordering::Greater|Less|Equal | a.total_cmp(&b) | a.partial_cmp(&b) | Some(ord) | None | o.is_gt() … is_ne()
                |  opt.is_some() | is_none() | map_or(d, |o| e) | is_some_and(|o| e) | unwrap_or(ord)
                |  approx_equal(a, b, n) | abs_num(e) | usize::from(bool) | bool as usize | Vec::new() | Vec::with_capacity(n)
                |  <items>[.iter()|.into_iter()|.copied()|.cloned()]*[.filter(|x| cond) | .filter_map(|x| cond.then_some(x))]…
                   [.collect[::<…>]() | .count() | .len() | .all(|x| cond) | .any(|x| cond) | .is_empty()
                    | .fold(init, |acc, x| e) | .map(|x| <usize>).sum[::<usize>]()]
The translator does not normalise: operands stay in source order, double negations stay, `let`s stay. Every new form is
transcribed into the Lean construct that *is* its meaning, and the equivalences between spellings are proved in Lean
(Props/C18Gen.lean, "shapes"), not assumed here:
    match / if let / matches!      Lean `match` on Bool / Ordering / Option Ordering (first matching arm in both languages; Lean's
                                   elaborator re-checks exhaustiveness and rejects redundant arms); guards are refused
    a.partial_cmp(&b)              `K.partial_cmp a b` (member values) / `num_partial_cmp a b` (computed numbers), defined in the generated
                                   header through the *same* abstract `>` and `==` the if-form uses: Some(Greater) iff a > b, Some(Less) iff
                                   b > a, Some(Equal) iff a == b, None otherwise — which is what f64::partial_cmp returns, NaN included
                                   (None). `abs_num` via `match val.partial_cmp(&ZERO)` is therefore the same if-tree as `if val > ZERO`.
                                   No fact relating `>=` to `>`/`==`, or partial_cmp to total_cmp, is stated: a source that swaps them
                                   is transcribed and then fails its equality proof.
    Iterator::fold(i, |a, x| e)    `List.foldl (fun a x => e) i` (accumulator usize / f64 / bool)
    for x in xs { updates of acc } `acc := xs.foldl (fun acc x => acc after the body) acc` — a loop without return/break/continue that
                                   assigns exactly one `let mut` local; every assignment is a shadowing Lean `let`
    Vec::retain(p) / push(a)       `filter p` / `++ [a]` on a `let mut` vector;  filter_map(|x| c.then_some(x)) = `List.filterMap`
    map(|x| n).sum()               `(List.map …).sum` on usize (no overflow: collection sizes are far below 2^64)
    usize::from(b) / b as usize    `if b then 1 else 0`
    while let Some(x) = it.next()  the desugaring of `for x in it`, accepted when `it` is a `let mut` iterator not used otherwise
Still refused: `while` / `loop` / indexing (`items[k]`), `break` / `continue`, `?`, match guards, two accumulators in one loop,
`.rev()` / `.zip()` / `.enumerate()`, a map to f64 to be summed, closures with more than two parameters.
"""
import re
from rsexpr import Unsupported, strip_comments, Parser, BINPREC

SRC = 'deep_causality/src/'
F_MATH = SRC + 'utils/math_utils.rs'
F_ASM_MOD = SRC + 'types/reasoning_types/assumption/mod.rs'
F_ASM_IMPL = SRC + 'types/reasoning_types/assumption/assumable.rs'
F_ASSUMABLE = SRC + 'protocols/assumable/mod.rs'
F_INFERABLE = SRC + 'protocols/inferable/mod.rs'
F_OBSERVABLE = SRC + 'protocols/observable/mod.rs'
OVERRIDE_FILES = {'AssumableReasoning': [SRC + 'extensions/assumable/mod.rs'],
                  'InferableReasoning': [SRC + 'extensions/inferable/mod.rs'],
                  'ObservableReasoning': [SRC + 'extensions/observable/mod.rs'],
                  'Inferable': [SRC + 'types/reasoning_types/inference/inferable.rs'],
                  'Observable': [SRC + 'types/reasoning_types/observation/observable.rs']}

# the methods C18 is about; each must exist (as a default method / in the impl) and is translated together with
# whatever other default methods it calls
ROOTS = {
    'AssumableReasoning': ['all_assumptions_tested', 'all_assumptions_valid', 'number_assumption_valid',
                           'percent_assumption_valid', 'verify_all_assumptions', 'get_all_invalid_assumptions',
                           'get_all_valid_assumptions', 'get_all_tested_assumptions', 'get_all_untested_assumptions'],
    'Inferable': ['conjoint_delta', 'is_inferable', 'is_inverse_inferable'],
    'InferableReasoning': ['get_all_inferable', 'get_all_inverse_inferable', 'get_all_non_inferable', 'all_inferable',
                           'all_inverse_inferable', 'all_non_inferable', 'conjoint_delta', 'number_inferable',
                           'number_inverse_inferable', 'number_non_inferable', 'percent_inferable',
                           'percent_inverse_inferable', 'percent_non_inferable'],
    'Observable': ['effect_observed'],
    'ObservableReasoning': ['number_observation', 'number_non_observation', 'percent_observation',
                            'percent_non_observation'],
    'AssumptionImpl': ['assumption_tested', 'assumption_valid', 'verify_assumption'],
}

LEAN_KEYWORDS = {'at', 'from', 'end', 'in', 'do', 'then', 'else', 'if', 'let', 'have', 'show', 'fun', 'by', 'with',
                 'match', 'def', 'theorem', 'where', 'open', 'namespace', 'section', 'structure', 'instance', 'class',
                 'Type', 'Prop', 'Sort', 'return', 'for', 'mut', 'import', 'deriving', 'example', 'variable', 'universe',
                 'abbrev', 'inductive', 'using', 'calc', 'suffices', 'obtain', 'forall', 'exists', 'macro', 'syntax'}
RESERVED = {'num_partial_cmp', 'some', 'none', 'AssumableReasoning', 'Assumable', 'InferableReasoning', 'Inferable', 'ObservableReasoning', 'Observable',
            'AssumptionImpl', 'Assumption', 'KeyOps', 'AssumableDict', 'InferableDict', 'ObservableDict',
            'K', 'T', 'Coll', 'Rat', 'Nat', 'Bool', 'List', 'Ordering', 'decide', 'ι', 'κ', 'δ', 'ZERO', 'MINUS_ONE', 'abs_num',
            'true', 'false', 'not', 'id'}

NUM_TYPES = ('NumericalValue', 'f64')

# ----------------------------------------------------------------------------------------------
# tokens: rsexpr's, plus float literals
# ----------------------------------------------------------------------------------------------
TOKEN = re.compile(r"""
    (?P<ws>\s+)
  | (?P<flt>\d[\d_]*\.\d[\d_]*(?:_?f(?:32|64))?|\d[\d_]*_?f(?:32|64))
  | (?P<num>\d[\d_]*(?:(?:u|i)(?:8|16|32|64|128|size))?)
  | (?P<id>[A-Za-z_][A-Za-z_0-9]*)
  | (?P<op><<=|>>=|<<|>>|==|!=|<=|>=|&&|\|\||::|->|=>|\+=|-=|\*=|/=|[-+*/%&|^!<>=.,;:(){}\[\]\#?])
""", re.X)


def tokenize(s):
    out, i = [], 0
    while i < len(s):
        m = TOKEN.match(s, i)
        if not m:
            raise Unsupported('cannot tokenise at: ' + s[i:i + 30])
        i = m.end()
        if m.lastgroup != 'ws':
            out.append((m.lastgroup, m.group(m.lastgroup)))
    return out


def strip_strings(src):
    return re.sub(r'"(?:[^"\\]|\\.)*"', '__str', src)


# ----------------------------------------------------------------------------------------------
# parser: rsexpr's Pratt parser + closures, `if` expressions, blocks, statements, turbofish on methods
# ----------------------------------------------------------------------------------------------
class BodyParser(Parser):
    def atom(self):
        kind, v = self.peek()
        if kind == 'flt':
            self.next()
            return ('flt', re.sub(r'_?f(32|64)$', '', v).replace('_', ''))
        if kind == 'id' and v == 'move' and self.peek(1)[1] == '|':
            self.next()
            kind, v = self.peek()
        if kind == 'op' and v == '|':
            return self.closure()
        if kind == 'op' and v == '||':
            self.next()
            if self.peek()[1] == '->':
                raise Unsupported('closure with a return type')
            return ('closure0', self.block() if self.peek()[1] == '{' else self.expr())
        if kind == 'id' and v == 'if':
            return self.if_expr()
        if kind == 'id' and v == 'match':
            return self.match_expr()
        if kind == 'id' and v == 'matches' and self.peek(1)[1] == '!':
            # `matches!(e, PAT)`  ==  `match e { PAT => true, _ => false }` (the macro's definition)
            self.next(), self.next()
            self.expect('(')
            scrut = self.expr()
            self.expect(',')
            pats = self.pattern()
            if self.peek()[1] == 'if':
                raise Unsupported('matches! with a guard')
            if self.peek()[1] == ',':
                self.next()
            self.expect(')')
            return ('match', scrut, [(pats, ('path', ['true'])), ([('wild',)], ('path', ['false']))])
        if kind == 'op' and v == '{':
            return self.block()
        if kind == 'id' and v in ('loop', 'while', 'for', 'let', 'return', 'break', 'continue', 'unsafe', 'async', 'await'):
            raise Unsupported(f'`{v}` in expression position')
        return super().atom()

    def closure(self):
        """`|x| e`, `|&x| e`, `|x: ty| e`, `|_| e`; two parameters `|acc, x| e` -> ('closure2', acc, x, body)"""
        self.expect('|')
        names, name, seen_colon, depth = [], None, False, 0
        while not (depth == 0 and self.peek()[1] == '|'):
            kind, v = self.next()
            if kind == 'eof':
                raise Unsupported('unterminated closure parameter list')
            if seen_colon:
                depth += (v in ('<', '(', '[')) - (v in ('>', ')', ']')) - 2 * (v == '>>')
            if v == ',' and depth == 0:
                if name is None:
                    raise Unsupported('closure without a named parameter')
                names.append(name)
                name, seen_colon = None, False
                continue
            if v == ':':
                seen_colon = True
            if not seen_colon:
                if kind == 'id' and v != 'mut':
                    if name is not None:
                        raise Unsupported('closure parameter pattern')
                    name = v
                elif v not in ('&', '&&', 'mut'):
                    raise Unsupported('closure parameter pattern: ' + v)
        self.expect('|')
        if name is None:
            raise Unsupported('closure without a named parameter')
        names.append(name)
        if len(names) > 2:
            raise Unsupported('closure with more than two parameters')
        if self.peek()[1] == '->':
            raise Unsupported('closure with a return type')
        body = self.block() if self.peek()[1] == '{' else self.expr()
        if len(names) == 2:
            return ('closure2', names[0], names[1], body)
        return ('closure', names[0], body)

    # ---- patterns of `match` / `if let` / `matches!`
    def pattern(self):
        if self.peek()[1] == '|':
            self.next()
        alts = [self.pat1()]
        while self.peek()[1] == '|':
            self.next()
            alts.append(self.pat1())
        return alts

    def pat1(self):
        kind, v = self.next()
        if kind != 'id' or v in ('ref', 'mut', 'box'):
            raise Unsupported('pattern ' + v)
        if v == '_':
            return ('wild',)
        path = [v]
        while self.peek()[1] == '::':
            self.next()
            k2, v2 = self.next()
            if k2 != 'id':
                raise Unsupported('pattern path')
            path.append(v2)
        if self.peek()[1] == '(':
            self.next()
            inner = self.pat1()
            self.expect(')')
            return ('pctor', path, inner)
        if self.peek()[1] in ('{', '@', '.'):
            raise Unsupported('pattern form')
        if len(path) == 1 and (v[:1].islower() or v[:1] == '_') and v not in ('true', 'false'):
            return ('pbind', v)
        return ('ppath', path)

    def match_expr(self):
        self.expect('match')
        scrut = self.expr()
        self.expect('{')
        arms = []
        while self.peek()[1] != '}':
            if self.peek()[0] == 'eof':
                raise Unsupported('unterminated match')
            pats = self.pattern()
            if self.peek()[1] == 'if':
                raise Unsupported('match guard')
            self.expect('=>')
            if self.peek()[1] == '{':
                body = self.block()
                if self.peek()[1] == ',':
                    self.next()
            else:
                if self.peek()[1] in ('return', 'break', 'continue'):
                    raise Unsupported(f'`{self.peek()[1]}` in a match arm')
                body = self.expr()
                if self.peek()[1] == ',':
                    self.next()
                elif self.peek()[1] != '}':
                    raise Unsupported('`,` expected after a match arm')
            arms.append((pats, body))
        self.expect('}')
        if not arms:
            raise Unsupported('match without arms')
        return ('match', scrut, arms)

    def if_expr(self):
        self.expect('if')
        pats = None
        if self.peek()[1] == 'let':
            # `if let PAT = e { A } else { B }`  ==  `match e { PAT => { A } _ => { B } }`
            self.next()
            pats = self.pattern()
            self.expect('=')
        cond = self.expr()
        then = self.block()
        els = None
        if self.peek()[1] == 'else':
            self.next()
            els = self.if_expr() if self.peek()[1] == 'if' else self.block()
        if pats is not None:
            if els is None:
                raise Unsupported('`if let` without `else`')
            return ('match', cond, [(pats, then), ([('wild',)], els)])
        return ('if', cond, then, els)

    def skip_generic(self):
        if self.peek()[1] != '<':
            raise Unsupported('`::` after a method name without `<`')
        depth = 0
        while True:
            kind, tk = self.next()
            if kind == 'eof':
                raise Unsupported('unterminated generic arguments')
            depth += (tk == '<') - (tk == '>') - 2 * (tk == '>>')
            if depth <= 0:
                return

    def postfix(self, e):
        while True:
            v = self.peek()[1]
            if v == '(':
                e = ('call', e, self.args())
            elif v == '.':
                self.next()
                kind, name = self.next()
                if kind != 'id':
                    raise Unsupported('method or field name expected after `.`')
                if self.peek()[1] == '::':
                    self.next()
                    self.skip_generic()
                    if self.peek()[1] != '(':
                        raise Unsupported('turbofish without call')
                if self.peek()[1] == '(':
                    e = ('mcall', e, name, self.args())
                else:
                    e = ('field', e, name)
            elif v == '?':
                raise Unsupported('`?`')
            elif v == '[':
                raise Unsupported('indexing')
            else:
                return e

    def skip_attrs(self):
        while self.peek()[1] == '#':
            self.next()
            self.expect('[')
            depth = 1
            while depth:
                kind, tk = self.next()
                if kind == 'eof':
                    raise Unsupported('unterminated attribute')
                depth += (tk == '[') - (tk == ']')

    def skip_type(self, stop):
        """skip a type annotation up to (not including) one of the `stop` tokens at bracket depth 0"""
        depth = 0
        while True:
            kind, tk = self.peek()
            if kind == 'eof':
                raise Unsupported('unterminated type')
            if depth == 0 and tk in stop:
                return
            depth += (tk in ('<', '(', '[')) - (tk in ('>', ')', ']')) - 2 * (tk == '>>')
            self.next()

    def block(self):
        self.expect('{')
        stmts, tail = [], None
        while self.peek()[1] != '}':
            if tail is not None:
                raise Unsupported('expression without `;` in the middle of a block')
            self.skip_attrs()
            kind, v = self.peek()
            if kind == 'eof':
                raise Unsupported('unterminated block')
            if v == ';':
                self.next()
            elif v == 'let':
                self.next()
                mut = False
                if self.peek()[1] == 'mut':
                    self.next()
                    mut = True
                k2, name = self.next()
                if k2 != 'id':
                    raise Unsupported('let pattern: ' + name)
                if self.peek()[1] == ':':
                    self.next()
                    self.skip_type(('=', ';'))
                self.expect('=')
                rhs = self.expr()
                self.expect(';')
                stmts.append(('let', name, rhs, mut))
            elif v == 'for':
                self.next()
                while self.peek()[1] in ('&', '&&', 'mut'):
                    self.next()
                k2, var = self.next()
                if k2 != 'id':
                    raise Unsupported('for pattern: ' + var)
                self.expect('in')
                it = self.expr()
                body = self.block()
                stmts.append(('for', var, it, body))
            elif v in ('if', 'match'):
                e = self.if_expr() if v == 'if' else self.match_expr()
                if self.peek()[1] == '}':
                    tail = e
                else:                   # a block-like expression in statement position ends the statement (Rust's rule)
                    stmts.append(('expr', e))
            elif v == 'while':
                # `while let Some(x) = it.next() { body }` — the desugaring of `for x in it` (Rust reference), kept as such
                self.next()
                if self.peek()[1] != 'let':
                    raise Unsupported('`while` statement')
                self.next()
                pats = self.pattern()
                self.expect('=')
                it = self.expr()
                body = self.block()
                if len(pats) != 1 or pats[0][0] != 'pctor' or pats[0][1] != ['Some'] or pats[0][2][0] != 'pbind' or \
                        it[0] != 'mcall' or it[2] != 'next' or it[3] or it[1][0] != 'path' or len(it[1][1]) != 1:
                    raise Unsupported('`while let` other than `while let Some(x) = it.next()`')
                stmts.append(('whilelet', pats[0][2][1], it[1][1][0], body))
            elif v == '{':
                e = self.block()
                if self.peek()[1] == '}':
                    tail = e
                else:
                    stmts.append(('expr', e))
            elif v == 'return':
                self.next()
                e = None if self.peek()[1] in (';', '}') else self.expr()
                if self.peek()[1] == ';':
                    self.next()
                stmts.append(('return', e))
                if self.peek()[1] != '}':
                    raise Unsupported('statements after `return`')
            elif v in ('loop', 'fn', 'struct', 'use', 'const', 'static', 'impl', 'break', 'continue'):
                raise Unsupported(f'`{v}` statement')
            else:
                e = self.expr()
                nxt = self.peek()[1]
                if nxt == '=':
                    self.next()
                    rhs = self.expr()
                    self.expect(';')
                    stmts.append(('assign', e, rhs))
                elif nxt in ('+=', '-=', '*=', '/='):
                    self.next()
                    rhs = self.expr()
                    if self.peek()[1] == ';':
                        self.next()
                    elif self.peek()[1] != '}':
                        raise Unsupported('`;` expected after an assignment')
                    stmts.append(('assign', e, ('bin', nxt[0], e, rhs)))
                elif nxt == ';':
                    self.next()
                    stmts.append(('expr', e))
                elif nxt == '}':
                    tail = e
                else:
                    raise Unsupported('unexpected token in statement: ' + nxt)
        self.expect('}')
        return ('block', stmts, tail)


def parse_block(body_text):
    p = BodyParser(tokenize('{' + body_text + '}'))
    b = p.block()
    if not p.at_end():
        raise Unsupported('trailing tokens after function body')
    return b


# ----------------------------------------------------------------------------------------------
# items: trait / impl blocks, fn signatures
# ----------------------------------------------------------------------------------------------
def read(repo, rel):
    return strip_strings(strip_comments((repo / rel).read_text()))


def brace_block(src, start):
    """text between the first `{` at or after `start` and its matching `}`"""
    i = src.find('{', start)
    if i < 0:
        raise Unsupported('`{` expected')
    depth, j = 1, i + 1
    while depth:
        if j >= len(src):
            raise Unsupported('unbalanced braces')
        depth += (src[j] == '{') - (src[j] == '}')
        j += 1
    return src[i + 1:j - 1], j


def find_block(src, pattern, what):
    ms = list(re.finditer(pattern, src))
    if len(ms) != 1:
        raise Unsupported(f'{what}: expected exactly one match, found {len(ms)}')
    return brace_block(src, ms[0].end())[0]


def fn_items(block):
    """[(name, signature text, body text | None)] of the `fn` items at depth 0 of a trait/impl block (or file)"""
    out, i, depth = [], 0, 0
    pat = re.compile(r'\bfn\s+(\w+)')
    while i < len(block):
        c = block[i]
        if c == '{':
            depth += 1
        elif c == '}':
            depth -= 1
        elif depth == 0 and c == 'f':
            m = pat.match(block, i)
            if m and (i == 0 or not (block[i - 1].isalnum() or block[i - 1] == '_')):
                j, pd = m.end(), 0
                while j < len(block) and not (pd == 0 and block[j] in ';{'):
                    pd += (block[j] in '([') - (block[j] in ')]')
                    j += 1
                if j >= len(block):
                    raise Unsupported('fn item without body or `;`: ' + m.group(1))
                sig = ' '.join(block[i:j].split())
                if block[j] == ';':
                    out.append((m.group(1), sig, None))
                    i = j + 1
                else:
                    body, end = brace_block(block, j)
                    out.append((m.group(1), sig, body))
                    i = end
                continue
        i += 1
    return out


def split_top(s, sep=','):
    out, cur, depth = [], '', 0
    for ch in s:
        if ch in '(<[':
            depth += 1
        if ch in ')>]':
            depth -= 1
        if ch == sep and depth == 0:
            out.append(cur)
            cur = ''
        else:
            cur += ch
    if cur.strip():
        out.append(cur)
    return [x.strip() for x in out if x.strip()]


def parse_sig(sig, where):
    """-> (has_self, [(param name, type text without spaces)], return type text | None)"""
    m = re.match(r'(?:pub(?:\([^)]*\))?\s+)?fn\s+\w+\s*\(', sig)
    if not m:
        raise Unsupported(f'{where}: signature not recognised: {sig}')
    depth, j = 1, m.end()
    while depth:
        if j >= len(sig):
            raise Unsupported(f'{where}: signature not recognised: {sig}')
        depth += (sig[j] == '(') - (sig[j] == ')')
        j += 1
    plist, rest = sig[m.end():j - 1], sig[j:].strip()
    ret = None
    if rest:
        mr = re.fullmatch(r'->\s*(.+)', rest)
        if not mr or re.search(r'\bwhere\b', rest):
            raise Unsupported(f'{where}: signature not recognised: {sig}')
        ret = mr.group(1).replace(' ', '')
    params, has_self = [], False
    for k, prm in enumerate(split_top(plist)):
        if k == 0 and re.fullmatch(r'&?\s*(mut\s+)?self', prm):
            if 'mut' in prm:
                raise Unsupported(f'{where}: `&mut self`')
            has_self = True
            continue
        mp = re.fullmatch(r'(?:mut\s+)?(\w+)\s*:\s*(.+)', prm, flags=re.S)
        if not mp:
            raise Unsupported(f'{where}: parameter {prm}')
        params.append((mp.group(1), mp.group(2).replace(' ', '')))
    return has_self, params, ret


# ----------------------------------------------------------------------------------------------
# types of the generated language
#   bool nat num(Rat) key(κ) ord mem(ι) coll list data(δ) unit cells ; ('fn', …) for the EvalFn field
# ----------------------------------------------------------------------------------------------
LEAN_TY = {'bool': 'Bool', 'nat': 'Nat', 'num': 'Rat', 'key': 'κ', 'ord': 'Ordering', 'mem': 'ι', 'list': 'List ι',
           'data': 'δ', 'optord': 'Option Ordering', 'nats': 'List Nat'}
ORD = {'Greater': 'Ordering.gt', 'Less': 'Ordering.lt', 'Equal': 'Ordering.eq'}
ORD_PREFIX = ([], ['Ordering'], ['cmp', 'Ordering'], ['std', 'cmp', 'Ordering'], ['core', 'cmp', 'Ordering'])
# std: `is_gt` = matches!(self, Greater), `is_ge` = !matches!(self, Less), …
ORD_TEST = {'is_gt': ('==', 'gt'), 'is_lt': ('==', 'lt'), 'is_eq': ('==', 'eq'), 'is_ge': ('!=', 'lt'), 'is_le': ('!=', 'gt'),
            'is_ne': ('!=', 'eq')}


def mentions(x, name):
    """does the identifier occur anywhere in the syntax tree?"""
    if isinstance(x, (tuple, list)):
        if len(x) == 2 and x[0] == 'path' and isinstance(x[1], list) and x[1] == [name]:
            return True
        return any(mentions(y, name) for y in x)
    return False


def has_return(x):
    if isinstance(x, (tuple, list)):
        if len(x) >= 1 and x[0] == 'return':
            return True
        return any(has_return(y) for y in x)
    return False


def param_type(ty, where, free=False):
    if ty in NUM_TYPES:
        return 'num' if free else 'key'
    if ty in ('&[NumericalValue]', '&[f64]'):
        return 'data'
    if ty == 'usize':
        return 'nat'
    if ty == 'bool':
        return 'bool'
    raise Unsupported(f'{where}: parameter type {ty}')


def ret_type(ty, where):
    if ty is None or ty == '()':
        return 'unit'
    if ty in NUM_TYPES:
        return 'num'
    if ty == 'bool':
        return 'bool'
    if ty == 'usize':
        return 'nat'
    if re.fullmatch(r'Vec<&\w+>', ty):
        return 'list'
    raise Unsupported(f'{where}: return type {ty}')


def lean_id(name):
    if not re.fullmatch(r'[A-Za-z_][A-Za-z_0-9]*', name) or name == '_':
        raise Unsupported('identifier ' + name)
    return f'«{name}»' if name in LEAN_KEYWORDS else name


def flt_to_rat(text):
    """a decimal float literal as an exact rational"""
    ip, fp = text.split('.') if '.' in text else (text, '')
    fp = fp.rstrip('0')
    if not fp:
        return f'({int(ip)} : Rat)'
    return f'(({int(ip + fp)} : Rat) / {10 ** len(fp)})'


class Fn:
    def __init__(self, name, sig, body, where):
        self.name, self.sig, self.body, self.where = name, sig, body, where
        self._parsed = None

    def _p(self):
        if self._parsed is None:       # lazily: a method nobody needs may have any signature
            self._parsed = parse_sig(self.sig, self.where)
        return self._parsed

    has_self = property(lambda self: self._p()[0])
    params = property(lambda self: self._p()[1])
    ret = property(lambda self: self._p()[2])


class Unit:
    """one namespace of generated definitions: a trait's default methods, an impl, or the free functions"""

    def __init__(self, gen, ns, kind, fns, where):
        self.gen, self.ns, self.kind, self.where = gen, ns, kind, where
        self.fns = {f.name: f for f in fns}
        if len(self.fns) != len(fns):
            raise Unsupported(f'{where}: duplicate fn names')
        self.required = {n: f for n, f in self.fns.items() if f.body is None}
        self.defaults = {n: f for n, f in self.fns.items() if f.body is not None}
        self.done = {}         # name -> (lean lines, param types, ret type, effectful)
        self.order = []
        self.active = []
        self.member = None     # for a collection trait: the Unit of the member trait
        self.dict_name = None  # for a member trait: name of the dictionary structure
        self.cells, self.fnfields = [], []

    # ---- how a definition of this unit is referred to from generated code
    def qual(self, name):
        return f'{self.ns}.{name}' if self.ns else name

    def need(self, name):
        """translate default method `name` (once), return its record"""
        if name in self.done:
            return self.done[name]
        if name in self.active:
            raise Unsupported(f'{self.where}: recursion through {name}')
        if name not in self.defaults:
            raise Unsupported(f'{self.where}: `{name}` is not a method with a body here')
        self.active.append(name)
        rec = Translator(self, self.defaults[name]).translate()
        self.active.pop()
        self.done[name] = rec
        self.order.append(name)
        return rec


# ----------------------------------------------------------------------------------------------
# translation of one function
# ----------------------------------------------------------------------------------------------
BOOL_LIT = {'true': True, 'false': False}
ITER_ID = ('iter', 'into_iter', 'copied', 'cloned')
READ_GUARD = {('read', 'unwrap'), ('lock', 'unwrap'), ('borrow',), ('write', 'unwrap'), ('borrow_mut',)}
WRITE_GUARD = {('write', 'unwrap'), ('lock', 'unwrap'), ('borrow_mut',)}


class Translator:
    def __init__(self, unit, fn):
        self.u, self.fn = unit, fn
        self.where = f'{unit.where} {fn.name}'
        self.env = {}          # rust local -> (lean name, type)
        self.guards = {}       # rust local -> cell name
        self.stores = False
        self.muts = set()      # `let mut` locals: every assignment is a new (shadowing) Lean `let`
        self.depth = 0         # > 0 inside a block that is used as a value: `return` there would leave the function

    def fail(self, msg):
        raise Unsupported(f'{self.where}: {msg}')

    # ---------------- names
    def bind(self, name, ty):
        if name in RESERVED or name == 'self' or name in self.u.gen.global_names:
            self.fail(f'local name `{name}` clashes with a name of the generated model')
        self.env[name] = (lean_id(name), ty)
        return lean_id(name)

    def K(self):
        """the abstract operations on member values — only where the member trait has member values at all"""
        mu = self.u.member if self.u.kind == 'coll' else self.u
        if mu is None or mu.kind != 'member' or not mu.has_key:
            self.fail('a member value (NumericalValue) in a trait whose members have none')
        return 'K'

    # ---------------- expressions -> (lean text, type)
    def coerce_num(self, t):
        s, ty = t
        if ty == 'num':
            return s
        if ty == 'key':
            return f'({self.K()}.val {s})'
        self.fail(f'a {ty} value where a NumericalValue is computed with')

    def cell_of(self, a):
        """`self.<cell>.read().unwrap()` / `.write().unwrap()` / `.borrow()` / … / a bound guard -> (cell, writable)"""
        if a[0] == 'paren':
            return self.cell_of(a[1])
        if a[0] == 'path' and len(a[1]) == 1 and a[1][0] in self.guards:
            return self.guards[a[1][0]]
        chain, cur = [], a
        while cur[0] == 'mcall' and not cur[3]:
            chain.append(cur[2])
            cur = cur[1]
        chain = tuple(reversed(chain))
        if cur[0] == 'field' and cur[1] == ('path', ['self']) and cur[2] in self.u.cells and chain in READ_GUARD:
            return cur[2], chain in WRITE_GUARD
        return None

    def e(self, a):
        k = a[0]
        if k == 'paren':
            s, ty = self.e(a[1])
            return s, ty
        if k == 'num':
            return f'({a[1]} : Nat)', 'nat'
        if k == 'flt':
            return flt_to_rat(a[1]), 'num'
        if k == 'neg':
            return f'(-{self.coerce_num(self.e(a[1]))})', 'num'
        if k == 'ref':
            return self.e(a[1])
        if k == 'deref':
            c = self.cell_of(a[1])
            if c is not None:
                return f'self.{lean_id(c[0])}', 'bool'
            s, ty = self.e(a[1])
            if ty in ('mem', 'key', 'num', 'bool', 'nat'):
                return s, ty           # `*x` on a reference to a member / a copied value
            self.fail('dereference of a ' + ty)
        if k == 'not':
            s, ty = self.e(a[1])
            if ty != 'bool':
                self.fail('`!` on a ' + ty)
            return f'(!{s})', 'bool'
        if k == 'cast':
            return self.cast(a[1], a[2])
        if k == 'bin':
            return self.bin(a[1], a[2], a[3])
        if k == 'path':
            return self.path(a[1])
        if k == 'if':
            return self.if_value(a)
        if k == 'match':
            return self.match_value(a)
        if k in ('closure', 'closure2', 'closure0'):
            self.fail('a closure where a value is expected')
        if k == 'block':
            return self.block_value(a, None)
        if k == 'call':
            return self.call(a[1], a[2])
        if k == 'mcall':
            return self.mcall(a[1], a[2], a[3])
        if k == 'field':
            if a[1] == ('path', ['self']) and self.u.kind == 'impl':
                self.fail(f'bare use of field self.{a[2]}')
            self.fail('field access')
        self.fail('expression form ' + k)

    def cast(self, inner, ty):
        if ty in NUM_TYPES:
            if inner[0] == 'num':
                return f'({inner[1]} : Rat)', 'num'
            s, t = self.e(inner)
            if t == 'nat':
                return f'(({s} : Nat) : Rat)', 'num'
            if t in ('num', 'key'):
                return s, t
            self.fail(f'cast of a {t} to {ty}')
        if ty == 'usize':
            s, t = self.e(inner)
            if t == 'nat':
                return s, t
            if t == 'bool':                 # `true as usize` = 1, `false as usize` = 0
                return f'(if {s} then (1 : Nat) else (0 : Nat))', 'nat'
        self.fail('cast to ' + ty)

    def path(self, p):
        if len(p) == 1:
            n = p[0]
            if n in BOOL_LIT:
                return n, 'bool'
            if n in self.env:
                return self.env[n]
            if n in self.u.gen.consts:
                return n, 'num'
            if n == 'None':                 # the only Option in this fragment is the Option<Ordering> of partial_cmp
                return '(none : Option Ordering)', 'optord'
            if n == 'self':
                self.fail('bare `self`')
            self.fail(f'unknown name `{n}`')
        if p[-2:-1] == ['Ordering'] and p[-1] in ('Greater', 'Less', 'Equal') and \
                p[:-2] in ([], ['std', 'cmp'], ['core', 'cmp'], ['cmp']):
            return 'Ordering.' + {'Greater': 'gt', 'Less': 'lt', 'Equal': 'eq'}[p[-1]], 'ord'
        self.fail('path ' + '::'.join(p))

    def bin(self, op, l, r):
        if op in ('&&', '||'):
            (a, ta), (b, tb) = self.e(l), self.e(r)
            if ta != 'bool' or tb != 'bool':
                self.fail(f'`{op}` on {ta}, {tb}')
            return f'({a} {op} {b})', 'bool'
        if op in ('+', '-', '*', '/'):
            ta, tb = self.e(l), self.e(r)
            if ta[1] == 'nat' and tb[1] == 'nat':
                if op == '-':
                    self.fail('subtraction of unsigned integers')
                return f'({ta[0]} {op} {tb[0]})', 'nat'
            return f'({self.coerce_num(ta)} {op} {self.coerce_num(tb)})', 'num'
        if op in ('==', '!=', '<', '<=', '>', '>='):
            (a, ta), (b, tb) = self.e(l), self.e(r)
            if ta != tb:
                self.fail(f'comparison `{op}` of a {ta} with a {tb}')
            if ta == 'key':
                K = self.K()
                return {'>=': f'({K}.ge {a} {b})', '>': f'({K}.gt {a} {b})', '<=': f'({K}.ge {b} {a})', '<': f'({K}.gt {b} {a})',
                        '==': f'({K}.eq {a} {b})', '!=': f'(!({K}.eq {a} {b}))'}[op], 'bool'
            if ta in ('num', 'nat'):
                lop = {'==': '=', '!=': '≠', '<': '<', '<=': '≤', '>': '>', '>=': '≥'}[op]
                return f'(decide ({a} {lop} {b}))', 'bool'
            if ta in ('bool', 'ord', 'optord') and op in ('==', '!='):
                return f'({a} {op} {b})', 'bool'
            self.fail(f'comparison `{op}` on {ta}')
        self.fail('operator ' + op)

    def args_for(self, rec_params, args, what):
        if len(rec_params) != len(args):
            self.fail(f'{what}: wrong number of arguments')
        out = []
        for (pname, pty), a in zip(rec_params, args):
            s, ty = self.e(a)
            if pty == 'num' and ty == 'key':
                s, ty = f'({self.K()}.val {s})', 'num'
            if ty != pty:
                self.fail(f'{what}: argument `{pname}` is a {ty}, expected {pty}')
            out.append(s)
        return ''.join(' ' + s for s in out)

    def call(self, f, args):
        # (self.assumption_fn)(data)
        g = f[1] if f[0] == 'paren' else f
        if g[0] == 'field' and g[1] == ('path', ['self']) and g[2] in self.u.fnfields:
            if len(args) != 1:
                self.fail('call of the function field with ≠ 1 arguments')
            s, ty = self.e(args[0])
            if ty != 'data':
                self.fail('the function field is applied to a ' + ty)
            return f'(self.{lean_id(g[2])} {s})', 'bool'
        if f[0] == 'path' and f[1] == ['usize', 'from'] and len(args) == 1:
            s, ty = self.e(args[0])        # `impl From<bool> for usize`: true -> 1, false -> 0
            if ty != 'bool':
                self.fail('usize::from of a ' + ty)
            return f'(if {s} then (1 : Nat) else (0 : Nat))', 'nat'
        if f[0] == 'path' and f[1] in (['Vec', 'new'], ['Vec', 'with_capacity']) and len(args) == (f[1][1] != 'new'):
            # an empty vector of members (the only vectors of this fragment), to be filled by `push`
            if args and self.e(args[0])[1] != 'nat':
                self.fail('Vec::with_capacity of a non-integer')
            return '([] : List ι)', 'list'
        if f[0] == 'path' and f[1] == ['Some'] and len(args) == 1:
            s, ty = self.e(args[0])
            if ty != 'ord':
                self.fail('Some(..) of a ' + ty)
            return f'(some {s})', 'optord'
        if f[0] == 'path':
            name = f[1][-1]
            if name == 'approx_equal' and len(f[1]) == 1:
                if len(args) != 3:
                    self.fail('approx_equal: 3 arguments expected')
                (a, ta), (b, tb), (n, tn) = self.e(args[0]), self.e(args[1]), self.e(args[2])
                if (ta, tb, tn) != ('key', 'key', 'nat'):
                    self.fail(f'approx_equal on {ta}, {tb}, {tn}')
                return f'({self.K()}.approx_equal {a} {b} {n})', 'bool'
            free = self.u.gen.free
            if name in free.defaults and f[1][:-1] in ([], ['math_utils'], ['crate', 'utils', 'math_utils'], ['utils', 'math_utils']):
                rec = free.need(name)
                return f'({free.qual(name)}{self.args_for(rec["params"], args, name)})', rec['ret']
            if name == 'drop':
                self.fail('drop(..) used as a value')
        self.fail('call of ' + repr(f)[:60])

    def closure_pred(self, c, what):
        if c[0] != 'closure':
            self.fail(f'{what}: closure expected')
        saved = dict(self.env)
        v = self.bind(c[1], 'mem')
        s, ty = self.e(c[2])
        self.env = saved
        if ty != 'bool':
            self.fail(f'{what}: closure does not answer a bool')
        return f'(fun {v} => {s})'

    def closure_of(self, c, types, what):
        """translate a closure whose parameters have the given types -> (lean parameter names, body text, body type)"""
        want = 'closure2' if len(types) == 2 else 'closure'
        if c[0] != want:
            self.fail(f'{what}: a closure with {len(types)} parameter(s) expected')
        saved = dict(self.env)
        names = []
        for n, ty in zip(c[1:1 + len(types)], types):
            names.append('_' if n == '_' else self.bind(n, ty))
        body = c[1 + len(types)]
        self.depth += 1
        s, ty = self.block_value(body, None) if body[0] == 'block' else self.e(body)
        self.depth -= 1
        self.env = saved
        return names, s, ty

    def match_value(self, a):
        """Rust `match` on a bool / Ordering / Option<Ordering> -> Lean `match` (first matching arm in both; Lean's
        elaborator re-checks exhaustiveness and rejects an unreachable arm)"""
        _, scrut, arms = a
        s, ts = self.e(scrut)
        if ts not in ('bool', 'ord', 'optord'):
            self.fail('match on a ' + ts)
        out = []
        for pats, body in arms:
            lp, binds = [], {}
            for ptn in pats:
                txt, b = self.pat(ptn, ts)
                lp.append(txt)
                binds.update(b)
            if binds and len(pats) > 1:
                self.fail('binding in an or-pattern')
            saved = dict(self.env)
            for n, ty in binds.items():
                self.bind(n, ty)
            self.depth += 1
            t = self.block_value(body, None) if body[0] == 'block' else self.e(body)
            self.depth -= 1
            self.env = saved
            out.append((' | '.join(lp), t))
        tys = {t[1] for _, t in out}
        if len(tys) > 1:
            if tys == {'num', 'key'}:
                out = [(lp, (self.coerce_num(t), 'num')) for lp, t in out]
                tys = {'num'}
            else:
                self.fail(f'match arms of types {sorted(tys)}')
        return '(match ' + s + ' with ' + ' '.join(f'| {lp} => {t[0]}' for lp, t in out) + ')', tys.pop()

    def pat(self, ptn, ts):
        if ptn[0] == 'wild':
            return '_', {}
        if ptn[0] == 'pbind' and ts in ('bool', 'ord', 'optord'):
            return lean_id(ptn[1]), {ptn[1]: ts}
        if ts == 'bool' and ptn[0] == 'ppath' and ptn[1] in (['true'], ['false']):
            return ptn[1][0], {}
        if ts == 'ord' and ptn[0] == 'ppath' and ptn[1][-1] in ORD and ptn[1][:-1] in ORD_PREFIX:
            return ORD[ptn[1][-1]], {}
        if ts == 'optord' and ptn[0] == 'ppath' and ptn[1] in (['None'], ['Option', 'None']):
            return 'none', {}
        if ts == 'optord' and ptn[0] == 'pctor' and ptn[1] in (['Some'], ['Option', 'Some']):
            inner, b = self.pat(ptn[2], 'ord')
            return f'some {inner}', b
        self.fail(f'pattern {ptn!r} on a {ts}')

    def mcall(self, obj, name, args):
        # ---- on the collection
        if obj == ('path', ['self']):
            u = self.u
            if u.kind == 'coll':
                if name in u.required:
                    if args:
                        self.fail(f'self.{name} with arguments')
                    ty = {'len': 'nat', 'is_empty': 'bool', 'get_all_items': 'list'}.get(name)
                    if ty is None:
                        self.fail(f'required method self.{name}()')
                    return f'self.{name}', ty
                if name in u.defaults:
                    rec = u.need(name)
                    if rec['effect']:
                        self.fail(f'self.{name}() is effectful and used as a value')
                    return f'({u.qual(name)} {u.member.kt} self{self.args_for(rec["params"], args, name)})', rec['ret']
                self.fail(f'self.{name}(): no such method in the trait')
            if u.kind == 'member':
                return self.member_call('self', u, name, args)
            self.fail(f'self.{name}()')
        # ---- cells
        c = self.cell_of(('mcall', obj, name, args))
        if c is not None:
            self.fail('a lock guard used as a value (only `*guard` reads are recognised)')
        s, ty = self.e(obj)
        if ty == 'mem':
            mu = self.u.member if self.u.kind == 'coll' else self.u
            return self.member_call(s, mu, name, args)
        if ty == 'key' and name == 'total_cmp' and len(args) == 1:
            b, tb = self.e(args[0])
            if tb != 'key':
                self.fail('total_cmp against a ' + tb)
            return f'({self.K()}.total_cmp {s} {b})', 'ord'
        if ty in ('key', 'num') and name == 'partial_cmp' and len(args) == 1:
            # f64::partial_cmp = Some(Greater) iff a > b, Some(Less) iff a < b, Some(Equal) iff a == b, None otherwise (a NaN);
            # spelt through the same abstract `>` / `==` the if-form uses (definition in the generated header)
            b, tb = self.e(args[0])
            if tb != ty:
                self.fail(f'partial_cmp of a {ty} against a {tb}')
            return (f'({self.K()}.partial_cmp {s} {b})' if ty == 'key' else f'(num_partial_cmp {s} {b})'), 'optord'
        if ty == 'ord' and name in ORD_TEST and not args:
            op, c = ORD_TEST[name]
            return f'({s} {op} Ordering.{c})', 'bool'
        if ty == 'optord':
            if name in ('is_some', 'is_none') and not args:
                return f'({s}).{"isSome" if name == "is_some" else "isNone"}', 'bool'
            if name == 'map_or' and len(args) == 2:
                d, td = self.e(args[0])
                (o,), body, tb = self.closure_of(args[1], ['ord'], 'map_or')
                if td != tb:
                    self.fail(f'map_or: default is a {td}, the closure answers a {tb}')
                return f'(match {s} with | some {o} => {body} | none => {d})', tb
            if name == 'is_some_and' and len(args) == 1:
                (o,), body, tb = self.closure_of(args[0], ['ord'], 'is_some_and')
                if tb != 'bool':
                    self.fail('is_some_and: the closure answers a ' + tb)
                return f'(match {s} with | some {o} => {body} | none => false)', 'bool'
            if name == 'unwrap_or' and len(args) == 1:
                d, td = self.e(args[0])
                if td != 'ord':
                    self.fail('unwrap_or of an Option<Ordering> with a ' + td)
                return f'(match {s} with | some o => o | none => {d})', 'ord'
        if ty == 'nats':
            if name in ITER_ID and not args:
                return s, 'nats'
            if name == 'sum' and not args:          # usize sum; no overflow: collection sizes are far below 2^64
                return f'({s}).sum', 'nat'
            if name in ('count', 'len') and not args:
                return f'({s}).length', 'nat'
        if ty == 'list':
            if name in ITER_ID and not args:
                return s, 'list'
            if name == 'fold' and len(args) == 2:
                # Iterator::fold(init, f) over the items in order = List.foldl f init
                init, ti = self.e(args[0])
                if ti not in ('nat', 'num', 'bool'):
                    self.fail('fold with an accumulator of type ' + ti)
                (acc, x), body, tb = self.closure_of(args[1], [ti, 'mem'], 'fold')
                if tb == 'key' and ti == 'num':
                    body, tb = self.coerce_num((body, tb)), 'num'
                if tb != ti:
                    self.fail(f'fold: accumulator is a {ti}, the closure answers a {tb}')
                return f'({s}.foldl (fun ({acc} : {LEAN_TY[ti]}) {x} => {body}) {init})', ti
            if name == 'map' and len(args) == 1:
                (x,), body, tb = self.closure_of(args[0], ['mem'], 'map')
                if tb != 'nat':
                    self.fail('map to a ' + tb + ' (only a map to usize, to be summed, is recognised)')
                return f'({s}.map (fun {x} => {body}))', 'nats'
            if name == 'filter_map' and len(args) == 1:
                return self.filter_map(s, args[0]), 'list'
            if name == 'filter' and len(args) == 1:
                return f'({s}.filter {self.closure_pred(args[0], "filter")})', 'list'
            if name == 'collect' and not args:
                return s, 'list'
            if name in ('count', 'len') and not args:
                return f'{s}.length', 'nat'
            if name in ('all', 'any') and len(args) == 1:
                return f'({s}.{name} {self.closure_pred(args[0], name)})', 'bool'
            if name == 'is_empty' and not args:
                return f'{s}.isEmpty', 'bool'
        self.fail(f'method .{name}() on a {ty}')

    def filter_map(self, xs, c):
        """`filter_map(|x| cond.then_some(x))` / `.then(|| x)` / `if cond { Some(x) } else { None }`: keeps x, in order, iff cond"""
        if c[0] != 'closure':
            self.fail('filter_map: closure expected')
        body = c[2]
        while body[0] == 'paren' or (body[0] == 'block' and not body[1] and body[2] is not None):
            body = body[1] if body[0] == 'paren' else body[2]

        def is_param(x):
            while x[0] in ('paren', 'deref', 'ref'):
                x = x[1]
            return x == ('path', [c[1]])
        cond = None
        if body[0] == 'mcall' and body[2] == 'then_some' and len(body[3]) == 1 and is_param(body[3][0]):
            cond = body[1]
        elif body[0] == 'mcall' and body[2] == 'then' and len(body[3]) == 1 and body[3][0][0] == 'closure0' and is_param(body[3][0][1]):
            cond = body[1]
        elif body[0] == 'if' and body[3] is not None and body[3][0] == 'block':
            t, e = body[2], body[3]
            if not t[1] and not e[1] and t[2] is not None and e[2] is not None and t[2][0] == 'call' and \
                    t[2][1] == ('path', ['Some']) and len(t[2][2]) == 1 and is_param(t[2][2][0]) and e[2] == ('path', ['None']):
                cond = body[1]
        if cond is None:
            self.fail('filter_map whose closure is not `cond.then_some(x)` / `if cond { Some(x) } else { None }`')
        saved = dict(self.env)
        v = self.bind(c[1], 'mem')
        self.depth += 1
        s, ty = self.e(cond)
        self.depth -= 1
        self.env = saved
        if ty != 'bool':
            self.fail('filter_map: the condition is a ' + ty)
        return f'({xs}.filterMap (fun {v} => if {s} then some {v} else none))'

    def member_call(self, recv, mu, name, args):
        if mu is None or mu.kind != 'member':
            self.fail(f'.{name}() on a member, but no member trait is known here')
        if name in mu.required:
            f = mu.required[name]
            if name not in mu.dict_fields:
                self.fail(f'required member method {name} has an unmodelled type')
            kind, ptys, rty = mu.dict_fields[name]
            if kind != 'reader':
                self.fail(f'state-passing member method {name} used as a value')
            if args:
                self.fail(f'{name}: arguments to a reader')
            return f'(T.{lean_id(name)} {recv})', rty
        if name in mu.defaults:
            rec = mu.need(name)
            if name not in mu.dyn_fields or ([t for _, t in rec['params']], rec['ret']) != (mu.dyn_fields[name][0], mu.dyn_fields[name][1]):
                self.fail(f'provided member method {name} has an unmodelled signature')
            # dynamic dispatch: the member type's implementation of the provided method (see member_dict)
            return f'(T.{lean_id(name)} {recv}{self.args_for(rec["params"], args, name)})', rec['ret']
        self.fail(f'member method {name} is not in trait {mu.where}')

    # ---------------- statements (pure): a block as a value of type `want`
    def if_value(self, a):
        _, cond, then, els = a
        c, tc = self.e(cond)
        if tc != 'bool':
            self.fail('`if` on a ' + tc)
        if els is None:
            self.fail('`if` without `else` used as a value')
        t, tt = self.block_value(then, None)
        e, te = self.block_value(els, None) if els[0] == 'block' else self.if_value(els)
        if tt != te:
            if {tt, te} == {'num', 'key'}:
                t, e = (self.coerce_num((t, tt)), self.coerce_num((e, te)))
                tt = 'num'
            else:
                self.fail(f'`if` branches of types {tt} and {te}')
        return f'(if {c} then {t} else {e})', tt

    def block_value(self, blk, want):
        saved, gsaved = dict(self.env), dict(self.guards)
        self.depth += 1
        r = self.seq(list(blk[1]), blk[2])
        self.depth -= 1
        self.env, self.guards = saved, gsaved
        return r

    def bool_literal(self, a):
        while a[0] == 'paren':
            a = a[1]
        if a[0] == 'path' and len(a[1]) == 1 and a[1][0] in BOOL_LIT:
            return BOOL_LIT[a[1][0]]
        return None

    def early_return(self, blk):
        """`{ return <expr>; }` -> expr, else None"""
        if blk[0] == 'block' and len(blk[1]) == 1 and blk[1][0][0] == 'return' and blk[2] is None and blk[1][0][1] is not None:
            return blk[1][0][1]
        return None

    def seq(self, stmts, tail):
        """value of a statement list with early returns, as one Lean term"""
        if not stmts:
            if tail is None:
                self.fail('block without a value')
            return self.e(tail)
        st, rest = stmts[0], stmts[1:]
        if self.depth > 0 and st[0] != 'let':
            self.fail('control flow inside a block that is used as a value')
        if st[0] == 'let':
            s, ty = self.e(st[2])
            if ty not in LEAN_TY:
                self.fail(f'let of a {ty}')
            v = self.bind(st[1], ty)
            if st[3]:
                if self.depth > 0:
                    self.fail('let mut inside a block that is used as a value')
                self.muts.add(st[1])
            else:
                self.muts.discard(st[1])
            r, tr = self.seq(rest, tail)
            return f'(let {v} : {LEAN_TY[ty]} := {s}; {r})', tr
        upd = self.update(st)
        if upd is not None:
            r, tr = self.seq(rest, tail)
            return f'({upd}; {r})', tr
        if st[0] == 'whilelet':
            # `let mut it = xs.iter(); while let Some(x) = it.next() { B }` is what `for x in xs { B }` desugars to; the
            # iterator must not be looked at again (it is exhausted then, the list it stands for here is not)
            _, var, itname, body = st
            if itname not in self.muts or self.env.get(itname, ('', ''))[1] != 'list' or mentions(body, itname) or \
                    mentions(rest, itname) or mentions(tail, itname):
                self.fail('`while let Some(x) = it.next()` on something other than a fresh iterator used only here')
            return self.seq([('for', var, ('path', [itname]), body)] + rest, tail)
        if st[0] == 'for' and not has_return(st[3]):
            return self.for_fold(st, rest, tail)
        if st[0] == 'return':
            if rest or tail is not None:
                self.fail('code after `return`')
            if st[1] is None:
                self.fail('`return;`')
            return self.e(st[1])
        if st[0] == 'expr' and st[1][0] == 'if':
            _, cond, then, els = st[1]
            ret = self.early_return(then)
            if ret is None or els is not None:
                self.fail('`if` statement that is not `if c { return e; }`')
            c, tc = self.e(cond)
            if tc != 'bool':
                self.fail('`if` on a ' + tc)
            a, ta = self.e(ret)
            b, tb = self.seq(rest, tail)
            if ta != tb:
                self.fail(f'early return of a {ta} in a function answering a {tb}')
            return f'(if {c} then {a} else {b})', ta
        if st[0] == 'for':
            return self.for_any(st, rest, tail)
        self.fail('statement ' + st[0] + (' ' + st[1][0] if st[0] == 'expr' else ''))

    # ---------------- `let mut` locals: an assignment is a new Lean `let` that shadows the old one
    def update(self, st):
        """`x = e;` / `x op= e;` / `x.retain(|a| c);` / `if c { updates } [else { updates }]` on `let mut` locals
        -> the Lean text `let x : T := …` (None when `st` is not such a statement)"""
        if st[0] == 'assign' and st[1][0] == 'path' and len(st[1][1]) == 1 and st[1][1][0] in self.muts:
            name = st[1][1][0]
            v, ty = self.env[name]
            s, ts = self.e(st[2])
            if ts == 'key' and ty == 'num':
                s, ts = self.coerce_num((s, ts)), 'num'
            if ts != ty:
                self.fail(f'assignment of a {ts} to `{name}`, which is a {ty}')
            return f'let {v} : {LEAN_TY[ty]} := {s}'
        if st[0] == 'expr' and st[1][0] == 'mcall' and st[1][2] == 'retain' and st[1][1][0] == 'path' and \
                len(st[1][1][1]) == 1 and st[1][1][1][0] in self.muts and len(st[1][3]) == 1:
            # Vec::retain(f): keeps exactly the elements for which f answers true, in their order = List.filter
            name = st[1][1][1][0]
            v, ty = self.env[name]
            if ty != 'list':
                self.fail('retain on a ' + ty)
            return f'let {v} : List ι := ({v}.filter {self.closure_pred(st[1][3][0], "retain")})'
        if st[0] == 'expr' and st[1][0] == 'mcall' and st[1][2] == 'push' and st[1][1][0] == 'path' and \
                len(st[1][1][1]) == 1 and st[1][1][1][0] in self.muts and len(st[1][3]) == 1:
            # Vec::push appends at the end
            name = st[1][1][1][0]
            v, ty = self.env[name]
            a, ta = self.e(st[1][3][0])
            if ty != 'list' or ta != 'mem':
                self.fail(f'push of a {ta} onto a {ty}')
            return f'let {v} : List ι := ({v} ++ [{a}])'
        if st[0] == 'expr' and st[1][0] == 'if' and not has_return(st[1]):
            _, cond, then, els = st[1]
            names = sorted(self.assigned(then) | (self.assigned(els) if els is not None else set()))
            if len(names) != 1 or names[0] not in self.muts:
                self.fail('`if` statement that neither returns nor updates exactly one `let mut` local')
            v, ty = self.env[names[0]]
            c, tc = self.e(cond)
            if tc != 'bool':
                self.fail('`if` on a ' + tc)
            t = self.updates_value(then, v)
            e = v if els is None else (self.updates_value(els, v) if els[0] == 'block' else
                                        self.updates_value(('block', [('expr', els)], None), v))
            return f'let {v} : {LEAN_TY[ty]} := (if {c} then {t} else {e})'
        return None

    def assigned(self, blk):
        """names of the locals a block of update statements assigns (anything else in it is refused later)"""
        out = set()
        if blk[0] == 'if':
            return self.assigned(blk[2]) | (self.assigned(blk[3]) if blk[3] is not None else set())
        if blk[0] != 'block':
            return out
        for st in list(blk[1]) + ([('expr', blk[2])] if blk[2] is not None else []):
            if st[0] == 'assign' and st[1][0] == 'path' and len(st[1][1]) == 1:
                out.add(st[1][1][0])
            elif st[0] == 'expr' and st[1][0] == 'mcall' and st[1][2] in ('retain', 'push') and st[1][1][0] == 'path':
                out.add(st[1][1][1][0])
            elif st[0] == 'expr' and st[1][0] in ('if', 'block'):
                out |= self.assigned(st[1])
        return out

    def updates_value(self, blk, v):
        """a block consisting of `let`s and updates of the local `v` -> the value of `v` afterwards"""
        if blk[0] != 'block':
            self.fail('else if')
        saved, msaved = dict(self.env), set(self.muts)
        stmts = list(blk[1])
        if blk[2] is not None:
            if blk[2][0] in ('if', 'block'):
                stmts.append(('expr', blk[2]))
            else:
                self.fail('a block of updates with a value')
        parts = []
        for st in stmts:
            if st[0] == 'let' and not st[3]:
                s, ty = self.e(st[2])
                if ty not in LEAN_TY:
                    self.fail(f'let of a {ty}')
                parts.append(f'let {self.bind(st[1], ty)} : {LEAN_TY[ty]} := {s}')
                continue
            if st[0] == 'expr' and st[1][0] == 'block':
                parts.append(f'let {v} := {self.updates_value(st[1], v)}')
                continue
            u = self.update(st)
            if u is None:
                self.fail('statement ' + st[0] + ' where only updates of a `let mut` local are recognised')
            parts.append(u)
        self.env, self.muts = saved, msaved
        return '(' + '; '.join(parts + [v]) + ')'

    def for_fold(self, st, rest, tail):
        """`for x in xs { updates of one `let mut` local acc }` (no return / break / continue)
        ==  acc = xs.foldl (fun acc x => acc after the body) acc"""
        _, var, it, body = st
        xs, tx = self.e(it)
        if tx != 'list':
            self.fail('`for` over a ' + tx)
        names = sorted(self.assigned(body))
        if len(names) != 1 or names[0] not in self.muts:
            self.fail('loop body that neither returns nor updates exactly one `let mut` local')
        acc, ty = self.env[names[0]]
        if ty not in ('nat', 'num', 'list', 'bool'):
            self.fail('loop accumulator of type ' + ty)
        saved = dict(self.env)
        x = self.bind(var, 'mem')
        val = self.updates_value(body, acc)
        self.env = saved
        r, tr = self.seq(rest, tail)
        return f'(let {acc} : {LEAN_TY[ty]} := ({xs}.foldl (fun ({acc} : {LEAN_TY[ty]}) {x} => {val}) {acc}); {r})', tr

    def for_any(self, st, rest, tail):
        """for x in xs { [let…]* if c { return lit; } } rest   ==   if xs.any (fun x => c) then lit else rest"""
        _, var, it, body = st
        xs, tx = self.e(it)
        if tx != 'list':
            self.fail('`for` over a ' + tx)
        saved = dict(self.env)
        v = self.bind(var, 'mem')
        inner, lets = list(body[1]), []
        if body[2] is not None:
            if body[2][0] == 'if' and body[2][3] is None:
                inner.append(('expr', body[2]))
            else:
                self.fail('loop body with a value')
        while inner and inner[0][0] == 'let':
            l = inner.pop(0)
            if l[3]:
                self.fail('let mut')
            s, ty = self.e(l[2])
            if ty not in LEAN_TY:
                self.fail(f'let of a {ty}')
            lets.append(f'let {self.bind(l[1], ty)} : {LEAN_TY[ty]} := {s}; ')
        if len(inner) != 1 or inner[0][0] != 'expr' or inner[0][1][0] != 'if' or inner[0][1][3] is not None:
            self.fail('loop body is not `if cond { return <bool>; }`')
        ret = self.early_return(inner[0][1][2])
        lit = self.bool_literal(ret) if ret is not None else None
        if lit is None:
            self.fail('loop body does not return a bool literal')
        c, tc = self.e(inner[0][1][1])
        if tc != 'bool':
            self.fail('loop condition is a ' + tc)
        self.env = saved
        cond = ''.join(lets) + c
        after_lit = None
        if not rest and tail is not None:
            after_lit = self.bool_literal(tail)
        elif len(rest) == 1 and rest[0][0] == 'return' and rest[0][1] is not None and tail is None:
            after_lit = self.bool_literal(rest[0][1])
        if lit is False and after_lit is True:
            return f'({xs}.all (fun {v} => !({cond})))', 'bool'
        if lit is True and after_lit is False:
            return f'({xs}.any (fun {v} => {cond}))', 'bool'
        r, tr = self.seq(rest, tail)
        if tr != 'bool':
            self.fail('loop returns a bool in a function answering a ' + tr)
        return f'(if ({xs}.any (fun {v} => {cond})) then {"true" if lit else "false"} else {r})', 'bool'

    # ---------------- statements with stores to cells: threads `self`
    def seq_state(self, stmts, tail, top):
        """-> (lines, value text | None, value type); the lines rebind `self`"""
        lines = []
        for st in stmts:
            if st[0] == 'let':
                c = self.cell_of(st[2])
                if c is not None:
                    if not c[1] and st[3]:
                        pass
                    self.guards[st[1]] = c
                    if st[1] in self.env:
                        del self.env[st[1]]
                    continue
                if st[3]:
                    self.fail('let mut of a value')
                s, ty = self.e(st[2])
                if ty not in LEAN_TY:
                    self.fail(f'let of a {ty}')
                lines.append(f'let {self.bind(st[1], ty)} : {LEAN_TY[ty]} := {s}')
                continue
            if st[0] == 'assign':
                lhs = st[1]
                c = self.cell_of(lhs[1]) if lhs[0] == 'deref' else None
                if c is None or not c[1]:
                    self.fail('assignment that is not a store through a write guard of a bool cell')
                s, ty = self.e(st[2])
                if ty != 'bool':
                    self.fail('store of a ' + ty)
                lines.append(f'let self := {{ self with {lean_id(c[0])} := {s} }}')
                self.stores = True
                continue
            if st[0] == 'expr' and st[1][0] == 'if':
                _, cond, then, els = st[1]
                c, tc = self.e(cond)
                if tc != 'bool':
                    self.fail('`if` on a ' + tc)
                branches = []
                for blk in (then, els):
                    if blk is None:
                        branches.append('self')
                        continue
                    if blk[0] != 'block':
                        self.fail('else if')
                    if blk[2] is not None:
                        self.fail('`if` statement with a value')
                    saved, gsaved = dict(self.env), dict(self.guards)
                    bl, _, _ = self.seq_state(list(blk[1]), None, False)
                    self.env, self.guards = saved, gsaved
                    branches.append('(' + '; '.join(bl + ['self']) + ')')
                lines.append(f'let self := if {c} then {branches[0]} else {branches[1]}')
                continue
            if st[0] == 'expr' and st[1][0] == 'block':
                if st[1][2] is not None:
                    self.fail('block statement with a value')
                saved, gsaved = dict(self.env), dict(self.guards)
                bl, _, _ = self.seq_state(list(st[1][1]), None, False)
                self.env, self.guards = saved, gsaved
                lines.append('let self := (' + '; '.join(bl + ['self']) + ')')
                continue
            if st[0] == 'expr' and st[1][0] == 'call' and st[1][1] == ('path', ['drop']) and len(st[1][2]) == 1 and \
                    st[1][2][0][0] == 'path' and st[1][2][0][1][0] in self.guards:
                del self.guards[st[1][2][0][1][0]]
                continue
            if st[0] == 'return' and top and st is stmts[-1] and tail is None and st[1] is not None:
                tail = st[1]
                continue
            self.fail('statement ' + st[0] + ' in a method that stores to cells')
        if tail is None:
            return lines, None, 'unit'
        s, ty = self.e(tail)
        return lines, s, ty

    # ---------------- a whole function
    def translate(self):
        u, fn = self.u, self.fn
        try:
            blk = parse_block(fn.body)
        except Unsupported as ex:
            self.fail(str(ex))
        params = []
        free = u.kind == 'free'
        if fn.has_self != (not free):
            self.fail('unexpected receiver')
        for pname, pty in fn.params:
            ty = param_type(pty, self.where, free=free)
            params.append((pname, ty))
        want = ret_type(fn.ret, self.where)
        binders = ''.join(f' ({self.bind(p, t)} : {LEAN_TY[t]})' for p, t in params)
        qn = u.qual(fn.name)
        doc = f'/-- `{u.where}::{fn.name}` -/'
        rec = {'params': params, 'ret': want, 'effect': False}

        if u.kind == 'impl':
            lines, val, ty = self.seq_state(list(blk[1]), blk[2], True)
            selfb = f' (self : {u.struct_lean} δ)'
            if self.stores:
                if ty != want:
                    self.fail(f'answers a {ty}, declared {want}')
                res = '(self, ())' if val is None else f'(self, {val})'
                rty = f'{u.struct_lean} δ × {"Unit" if val is None else LEAN_TY[ty]}'
                rec['effect'] = True
            else:
                if val is None or ty != want:
                    self.fail(f'answers a {ty}, declared {want}')
                res, rty = val, LEAN_TY[ty]
            body = ['  ' + l for l in lines] + ['  ' + res]
            rec['lines'] = [doc, f'def {qn}{selfb}{binders} : {rty} :='] + body
            return rec

        # for a in self.get_all_items() { a.<state-passing>(args); }   as the whole body of a `()` method
        if want == 'unit':
            only = blk[1][0] if len(blk[1]) == 1 and blk[2] is None else (('expr', blk[2]) if not blk[1] and blk[2] else None)
            if only is not None and only[0] == 'expr' and only[1][0] == 'mcall' and only[1][2] == 'for_each' and \
                    len(only[1][3]) == 1 and only[1][3][0][0] == 'closure':
                # Iterator::for_each(f) calls f on every item in order: the `for` loop
                cl = only[1][3][0]
                cbody = cl[2] if cl[2][0] == 'block' else ('block', [('expr', cl[2])], None)
                only = ('for', cl[1], only[1][1], cbody)
            if u.kind != 'coll' or only is None or only[0] != 'for':
                self.fail('a method without a value that is not a single `for` over the members')
            _, var, it, body = only
            xs, tx = self.e(it)
            if tx != 'list' or xs != 'self.get_all_items':
                self.fail('`for` not over self.get_all_items()')
            if has_return(body):
                self.fail('`return` in the loop over the members')
            stmt = body[1][0] if len(body[1]) == 1 and body[2] is None else (('expr', body[2]) if not body[1] and body[2] else None)
            if stmt is None or stmt[0] != 'expr' or stmt[1][0] != 'mcall' or stmt[1][1] != ('path', [var]):
                self.fail('loop body is not a single call on the loop variable')
            mname, margs = stmt[1][2], stmt[1][3]
            mu = u.member
            if mname not in mu.required or mu.dict_fields.get(mname, ('',))[0] != 'state':
                self.fail(f'loop body calls {mname}, which is not a state-passing required member method')
            _, ptys, _ = mu.dict_fields[mname]
            v = lean_id(var)
            if var in RESERVED or var in self.env:
                self.fail(f'loop variable `{var}`')
            a = self.args_for([('data', t) for t in ptys], margs, mname)
            rec['effect'] = True
            rec['ret'] = 'list'
            rec['lines'] = [doc[:-3] + ' — the members after the call, in order -/',
                            f'def {qn} {mu.binder} (self : Coll ι){binders} : List ι :=',
                            f'  {xs}.map (fun {v} => (T.{lean_id(mname)} {v}{a}).1)']
            return rec

        s, ty = self.seq(list(blk[1]), blk[2])
        if ty == 'key' and want == 'num':
            s, ty = self.coerce_num((s, ty)), 'num'
        if ty != want:
            self.fail(f'answers a {ty}, declared {want}')
        if free:
            head = f'def {qn}{binders} : {LEAN_TY[ty]} :='
        elif u.kind == 'member':
            head = f'def {qn} {u.binder} (self : ι){binders} : {LEAN_TY[ty]} :='
        else:
            head = f'def {qn} {u.member.binder} (self : Coll ι){binders} : {LEAN_TY[ty]} :='
        rec['lines'] = [doc, head, '  ' + s]
        return rec


# ----------------------------------------------------------------------------------------------
# the generator
# ----------------------------------------------------------------------------------------------
class Gen:
    def __init__(self, repo):
        self.repo = repo
        self.consts = {}
        self.global_names = set()
        self.free = None


def trait_unit(gen, src, trait, kind, where):
    block = find_block(src, r'\btrait\s+' + trait + r'\b', f'{where}: trait {trait}')
    fns = [Fn(n, s, b, f'{trait}::{n}') for n, s, b in fn_items(block)]
    u = Unit(gen, trait, kind, fns, trait)
    return u


def member_dict(u, name):
    """dictionary of the required methods of a member trait: readers `ι → Bool|κ`, and state-passing methods taking data"""
    u.dict_name = name
    u.dict_fields = {}
    for n, f in u.required.items():
        if not f.has_self:
            continue
        if f.ret == 'bool' and not f.params:
            u.dict_fields[n] = ('reader', [], 'bool')
        elif f.ret in NUM_TYPES and not f.params:
            u.dict_fields[n] = ('reader', [], 'key')
        elif f.ret == 'bool' and [t for _, t in f.params] in (['&[NumericalValue]'], ['&[f64]']):
            u.dict_fields[n] = ('state', ['data'], 'bool')
        # anything else (descriptions, ids, function pointers) is not modelled; a default method that calls it is refused
    # provided (default) methods of the member trait may be overridden by a member type: a call `x.m(..)` from a default method
    # dispatches to whatever the member type implements, so it goes through the dictionary as well (field `m`); the default
    # *body* is emitted as the definition `<Trait>.m`, and "the type keeps the default" is a hypothesis of the theorems
    u.dyn_fields = {}
    for n, f in u.defaults.items():
        try:
            if not f.has_self:
                continue
            ptys = [param_type(t, f'{u.where}::{n}') for _, t in f.params]
            rty = ret_type(f.ret, f'{u.where}::{n}')
        except Unsupported:
            continue
        if rty in LEAN_TY and all(t in LEAN_TY for t in ptys):
            u.dyn_fields[n] = (ptys, rty)
    u.has_key = any(k == 'reader' and r == 'key' for k, _, r in u.dict_fields.values())
    u.has_data = any('data' in p for _, p, _ in u.dict_fields.values())
    u.targs = 'ι' + (' κ' if u.has_key else '') + (' δ' if u.has_data else '')
    u.kt = 'K T' if u.has_key else 'T'
    u.binder = ('(K : KeyOps κ) ' if u.has_key else '') + f'(T : {u.dict_name} {u.targs})'


def dict_lean(u, doc):
    out = [f'/-- {doc} -/', f'structure {u.dict_name} ({u.targs} : Type) where']
    for n, (kind, ptys, rty) in u.dict_fields.items():
        if kind == 'reader':
            out.append(f'  {lean_id(n)} : ι → {LEAN_TY[rty]}')
        else:
            out.append(f'  {lean_id(n)} : ι → {" → ".join(LEAN_TY[t] for t in ptys)} → ι × {LEAN_TY[rty]}')
    if len(out) == 2:
        raise Unsupported(f'{u.where}: no required method of a modelled type')
    for n, (ptys, rty) in u.dyn_fields.items():
        out.append(f'  {lean_id(n)} : ι → {"".join(LEAN_TY[t] + " → " for t in ptys)}{LEAN_TY[rty]}'
                   f'   -- provided method, as the member type implements it')
    return out + ['']


def check_coll_required(u):
    want = {'len': ('usize', []), 'is_empty': ('bool', []), 'get_all_items': (None, [])}
    if set(u.required) != set(want):
        raise Unsupported(f'{u.where}: required methods are {sorted(u.required)}, expected len, is_empty, get_all_items')
    for n, f in u.required.items():
        if not f.has_self or f.params:
            raise Unsupported(f'{u.where}::{n}: signature {f.sig}')
        if want[n][0] and f.ret != want[n][0]:
            raise Unsupported(f'{u.where}::{n}: return type {f.ret}')
    if not re.fullmatch(r'Vec<&T>', u.required['get_all_items'].ret or ''):
        raise Unsupported(f'{u.where}::get_all_items: return type {u.required["get_all_items"].ret}')


def check_no_override(repo, trait, names):
    for rel in OVERRIDE_FILES[trait]:
        src = read(repo, rel)
        for m in re.finditer(r'\bimpl\b[^{;]*\b' + trait + r'\b[^{;]*\{', src):
            block, _ = brace_block(src, m.end() - 1)
            for n, _, body in fn_items(block):
                if n in names:
                    raise Unsupported(f'{rel}: the impl overrides the default method {trait}::{n}')


def assumption_unit(gen):
    """struct Assumption (cells + function field), its constructor, and `impl Assumable for Assumption`"""
    repo = gen.repo
    src = read(repo, F_ASM_MOD)
    aliases = {m.group(1): m.group(2).replace(' ', '') for m in re.finditer(r'\btype\s+(\w+)\s*<\s*T\s*>\s*=\s*([^;]+);', src)}
    m = re.search(r'\bstruct\s+Assumption\s*\{([^}]*)\}', src)
    if not m:
        raise Unsupported(f'{F_ASM_MOD}: struct Assumption not found')
    cells, fnfields, other = [], [], []
    for item in split_top(re.sub(r'#\[[^\]]*\]', '', m.group(1))):
        mi = re.fullmatch(r'(?:pub(?:\([^)]*\))?\s+)?(\w+)\s*:\s*(.+)', item, flags=re.S)
        if not mi:
            raise Unsupported(f'{F_ASM_MOD}: field {item}')
        f, ty = mi.group(1), mi.group(2).replace(' ', '')
        for _ in range(4):
            for al, rhs in aliases.items():
                ty = re.sub(r'\b' + al + r'<([^<>]*)>', lambda mm: re.sub(r'\bT\b', mm.group(1), rhs), ty)
        inner = ty
        while True:
            mw = re.fullmatch(r'(?:std::\w+::)*(Arc|Rc|RwLock|Mutex|RefCell)<(.+)>', inner)
            if not mw:
                break
            inner = mw.group(2)
        if inner == 'bool' and inner != ty:
            cells.append(f)
        elif ty == 'EvalFn':
            fnfields.append(f)
        elif ty == 'bool':
            raise Unsupported(f'{F_ASM_MOD}: plain bool field {f} (cannot be written through &self)')
        else:
            other.append(f)
    if not cells or len(fnfields) != 1:
        raise Unsupported(f'{F_ASM_MOD}: struct Assumption: cells {cells}, function fields {fnfields}')
    # constructor
    blocks = [brace_block(src, mm.end() - 1)[0] for mm in re.finditer(r'\bimpl\s+Assumption\s*\{', src)]
    news = [(n, s, b) for blk in blocks for n, s, b in fn_items(blk) if n == 'new']
    if len(news) != 1:
        raise Unsupported(f'{F_ASM_MOD}: expected exactly one Assumption::new')
    _, sig, body = news[0]
    _, params, ret = parse_sig(sig, 'Assumption::new')
    if ret != 'Self' and ret != 'Assumption':
        raise Unsupported('Assumption::new: return type ' + str(ret))
    mb = re.fullmatch(r'\s*(?:Self|Assumption)\s*\{(.*)\}\s*', body, flags=re.S)
    if not mb:
        raise Unsupported('Assumption::new: body is not a single struct literal')
    init = {}
    for item in split_top(mb.group(1)):
        mi = re.fullmatch(r'(\w+)\s*(?::\s*(.+))?', item, flags=re.S)
        if not mi:
            raise Unsupported('Assumption::new: initialiser ' + item)
        init[mi.group(1)] = (mi.group(2) or mi.group(1)).strip()
    new_fields = []
    pnames = [p for p, _ in params]
    for f in fnfields:
        if init.get(f) not in pnames:
            raise Unsupported(f'Assumption::new: {f} is not initialised from a parameter')
        new_fields.append((f, None))
    for c in cells:
        v = init.get(c)
        if v is None:
            raise Unsupported(f'Assumption::new: {c} not initialised')
        while True:
            mw = re.fullmatch(r'(?:\w+::)*(?:Arc|Rc|RwLock|Mutex|RefCell)::new\s*\((.*)\)', v, flags=re.S)
            if not mw:
                break
            v = mw.group(1).strip()
        if v not in BOOL_LIT:
            raise Unsupported(f'Assumption::new: initial value of {c} is not a bool literal: {v}')
        new_fields.append((c, v))
    # impl Assumable for Assumption
    isrc = read(repo, F_ASM_IMPL)
    block = find_block(isrc, r'\bimpl\s+Assumable\s+for\s+Assumption\b', f'{F_ASM_IMPL}: impl Assumable for Assumption')
    fns = [Fn(n, s, b, f'Assumption::{n}') for n, s, b in fn_items(block) if b is not None]
    u = Unit(gen, 'AssumptionImpl', 'impl', fns, 'impl Assumable for Assumption')
    u.cells, u.fnfields, u.struct_lean = cells, fnfields, 'Assumption'
    u.new_fields, u.other = new_fields, other
    return u


def struct_lean(u):
    fn = u.fnfields[0]
    out = [f'/-- `struct Assumption`: the `EvalFn` and the `Arc<RwLock<bool>>` cells as plain cells (not modelled: {", ".join(u.other) or "-"}) -/',
           'structure Assumption (δ : Type) where', f'  {lean_id(fn)} : δ → Bool'] + \
          [f'  {lean_id(c)} : Bool' for c in u.cells] + ['']
    inits = ', '.join(f'{lean_id(f)} := {lean_id(f) if v is None else v}' for f, v in u.new_fields)
    out += ['/-- `Assumption::new` -/',
            f'def Assumption.new {{δ : Type}} ({lean_id(fn)} : δ → Bool) : Assumption δ := {{ {inits} }}', '']
    return out


def gen_collections(repo):
    gen = Gen(repo)
    # names the generated file defines at the top of its namespace: a Rust local of the same name would capture them
    for names in ROOTS.values():
        gen.global_names.update(names)

    # ---- math_utils.rs
    msrc = read(repo, F_MATH)
    for m in re.finditer(r'\bconst\s+(\w+)\s*:\s*(\w+)\s*=\s*([^;]+);', msrc):
        if m.group(2) in NUM_TYPES:
            v = m.group(3).strip()
            mm = re.fullmatch(r'(-?)\s*(\d[\d_]*\.\d[\d_]*)', v)
            if not mm:
                raise Unsupported(f'{F_MATH}: const {m.group(1)} = {v}')
            gen.consts[m.group(1)] = ('-' if mm.group(1) else '') + flt_to_rat(mm.group(2).replace('_', ''))
    free = Unit(gen, '', 'free', [Fn(n, s, b, n) for n, s, b in fn_items(msrc) if n == 'abs_num'], 'math_utils.rs')
    gen.free = free
    gen.global_names.update(gen.consts)
    free.need('abs_num')

    # ---- Assumption
    au = assumption_unit(gen)
    for n in ROOTS['AssumptionImpl']:
        au.need(n)

    # ---- traits
    units = []
    for rel, mtrait, dname, ctrait in ((F_ASSUMABLE, 'Assumable', 'AssumableDict', 'AssumableReasoning'),
                                       (F_INFERABLE, 'Inferable', 'InferableDict', 'InferableReasoning'),
                                       (F_OBSERVABLE, 'Observable', 'ObservableDict', 'ObservableReasoning')):
        src = read(repo, rel)
        mu = trait_unit(gen, src, mtrait, 'member', rel)
        member_dict(mu, dname)
        cu = trait_unit(gen, src, ctrait, 'coll', rel)
        cu.member = mu
        check_coll_required(cu)
        for n in ROOTS.get(mtrait, []):
            mu.need(n)
        for n in ROOTS[ctrait]:
            cu.need(n)
        if mu.defaults:
            check_no_override(repo, mtrait, set(mu.defaults))
        check_no_override(repo, ctrait, set(cu.defaults))
        units.append((rel, mu, cu))

    # ---- text
    out = ['-- GENERATED by /verif/tools/rs2lean.py collections from /repo — do not edit, regenerated on every check run',
           '/-! The default methods of `AssumableReasoning`, `InferableReasoning`, `ObservableReasoning`, of the member traits',
           '`Inferable` / `Observable`, `impl Assumable for Assumption` and `abs_num`, expression by expression.',
           'Member values are opaque (`κ`), their comparisons abstract (`KeyOps`); computed numbers are exact rationals;',
           '`Arc<RwLock<bool>>` are plain cells. Nothing is normalised: operand order, negations and `let`s are the source\'s. -/',
           'set_option linter.unusedVariables false', 'namespace Gen.Collections', '',
           '/-- what the code does with member values (`f64`): `total_cmp`, `approx_equal(a, b, places)`, `>=`, `>`, `==`',
           '(`<`, `<=`, `!=` are emitted through these with swapped arguments / a negation), and `val` = the number itself -/',
           'structure KeyOps (κ : Type) where',
           '  total_cmp : κ → κ → Ordering', '  approx_equal : κ → κ → Nat → Bool',
           '  ge : κ → κ → Bool', '  gt : κ → κ → Bool', '  eq : κ → κ → Bool', '  val : κ → Rat', '',
           '/-- `a.partial_cmp(&b)` on member values (`f64`), through the same abstract comparisons: `Some(Greater)` iff `a > b`,',
           '`Some(Less)` iff `a < b`, `Some(Equal)` iff `a == b`, `None` when none of them holds (a NaN is involved) — for IEEE',
           'values exactly one of the four cases applies, so the order of the tests is immaterial there -/',
           'def KeyOps.partial_cmp {κ : Type} (K : KeyOps κ) (a b : κ) : Option Ordering :=',
           '  if K.gt a b then some Ordering.gt else if K.gt b a then some Ordering.lt else if K.eq a b then some Ordering.eq else none',
           '',
           '/-- `a.partial_cmp(&b)` on computed numbers (exact rationals; `none` is the NaN case, which they do not have) -/',
           'def num_partial_cmp (a b : Rat) : Option Ordering :=',
           '  if a > b then some Ordering.gt else if a < b then some Ordering.lt else if a = b then some Ordering.eq else none', '',
           '/-- the required methods of the three `…Reasoning` traits: all a default method can see of the collection -/',
           'structure Coll (ι : Type) where', '  len : Nat', '  is_empty : Bool', '  get_all_items : List ι', '',
           '/-! ## utils/math_utils.rs -/']
    for c, v in gen.consts.items():
        out.append(f'def {c} : Rat := {v}')
    out.append('')
    for n in free.order:
        out += free.done[n]['lines'] + ['']
    out += ['/-! ## types/reasoning_types/assumption -/'] + struct_lean(au)
    out += ['section', 'variable {δ : Type}', '']
    for n in au.order:
        out += au.done[n]['lines'] + ['']
    out += ['end', '']
    for rel, mu, cu in units:
        out += [f'/-! ## {rel[len(SRC):]} -/']
        out += dict_lean(mu, f'required methods of `{mu.where}` (readers; methods taking data pass the member\'s state)')
        out += ['section', 'variable {ι κ δ : Type}', '']
        for n in mu.order:
            out += mu.done[n]['lines'] + ['']
        for n in cu.order:
            out += cu.done[n]['lines'] + ['']
        out += ['end', '']
    # the concrete Assumption as a member
    asm_mu = units[0][1]
    fields = []
    for n, (kind, ptys, rty) in asm_mu.dict_fields.items():
        if n not in au.done:
            raise Unsupported(f'impl Assumable for Assumption: {n} not translated')
        if (kind == 'state') != au.done[n]['effect'] and kind == 'reader':
            raise Unsupported(f'impl Assumable for Assumption: reader {n} stores to a cell')
        if kind == 'state' and not au.done[n]['effect']:
            fields.append(f'{lean_id(n)} := fun a d => (a, AssumptionImpl.{n} a d)')
        else:
            fields.append(f'{lean_id(n)} := AssumptionImpl.{n}')
    out += ['/-- `Assumption` as a member of an `AssumableReasoning` collection -/',
            'def AssumptionImpl.dict {δ : Type} : AssumableDict (Assumption δ)' + asm_mu.targs[1:].replace(' κ', ' Unit') + ' :=',
            '  { ' + ', '.join(fields) + ' }', '', 'end Gen.Collections', '']
    return '\n'.join(out)


def install(register):
    def guarded(repo):
        try:
            return gen_collections(repo)
        except Unsupported:
            raise
        except Exception as ex:      # noqa: BLE001
            raise Unsupported(f'collections: internal {type(ex).__name__}: {ex}')
    register('collections', 'Collections.lean')(guarded)
