"""rs2lean generator `grid` (C17): dcl_data_structures/src/grid_type/*.rs -> Gen/GridAddr.lean.

What is read from the source, and what it becomes:

  point.rs                 PointIndex::new1d…new4d            -> `Pt`, `Pt.new1d` … `Pt.new4d`
  storage_array_{1..4}d.rs `impl Storage<T> for [[T; A]; B]…` -> `getAddr k p`, `setAddr k p`: the index list, outermost
                           get: `&self[i1][i2]…`                 first, *separately* for get and set, and the nesting depth
                           set: `self[i1][i2]… = elem`           of the array type the impl is for
  mod.rs                   enum ArrayGrid variants (+ alias)   -> `nest k e`: which const parameter of ArrayGrid<T,W,H,D,C>
                                                                 bounds which index position (outermost first);
                           ArrayGrid::new / get / set          -> checked to build an all-default array of exactly that type
                                                                 and to dispatch every variant to `grid.get(p)` / `grid.set(p, value)`
  grid.rs, mod.rs          cfg(feature = "unsafe") switches    -> which `Grid` each build uses (`safeBuildUses…` comments, checked)
  grid_safe.rs             Grid::{new,get,set}                 -> `SafeGrid.*`   (RefCell borrow = plain access, sequential)
  grid_unsafe.rs           Grid::{new,get,set}                 -> `UnsafeGrid.*` (the `initialized` flag is modelled; the
                                                                 raw-pointer write is a plain write to the same storage)

Accepted spellings (normalised to the same generated definitions; each normalisation is an identity of the meaning):
  storage_array_*.rs   `&self[i][j]…` or the same chain taken stepwise through references to the sub-arrays,
                       `let a = &self[i]; let b = &a[j]; &b[k]` (set: `&mut`, then `b[k] = v`) — indexing through a reference to
                       a sub-array addresses the same cells in the same order; every such local must be used exactly
                       once (an unused one would add a bounds check the address list does not show). The value
                       parameter of `set` may have any name; a trailing `;` is immaterial.
  mod.rs               `ArrayGrid::V(g)` / `Self::V(g)` patterns with any binder; in `new`, `T::default()` may be bound to a
                       local first (`T: Copy`: the same value) and an arm may be a block binding the array to a local.
  grid_*.rs            `if c { A } else { B }`, `if !c { B } else { A }` and the early-return forms `if !c { return B; } A` /
                       `if c { return A; } B` are one tree; `black_box(x)` is the identity (std::hint); a `RefCell` guard or the
                       reference returned by `Storage::get` may be bound to a local first; the raw pointer to the storage may
                       be spelled `&self.storage as *const S as *mut S` or `std::ptr::addr_of!(self.storage).cast_mut()` and
                       may be derived before or after `black_box(value)`; the memory ordering of the flag load is
                       not modelled (sequential code). Field names do not matter: the storage field (type `S` /
                       `RefCell<S>`) is called `storage`, a single `AtomicBool` field `initialized` in the generated structure.

The semantics of nested Rust array indexing (`a[i][j]` panics unless every index is below the length of its
level; a store changes exactly the addressed cell) is the fixed prelude `Cells/inb/readAt/writeAt` below — that part is
assumed (DESIGN §3), not derived. Anything outside the recognised shapes raises Unsupported (fail closed).
"""
import re
from rsexpr import Unsupported, strip_comments, parse_expr, split_statements, find_fn
from rs2lean_adjustable import parse_point_ctors, point_lean
from rsblock import parse_body, fn_items, split_top, strip_blocks

G = 'dcl_data_structures/src/grid_type/'
COORDS = ('x', 'y', 'z', 't')
CONSTS = ('W', 'H', 'D', 'C')


def norm(s):
    return ' '.join(s.split())


def array_nesting(ty, elem='T'):
    """`[[[T; W]; H]; D]` -> ['D', 'H', 'W'] (outermost first)"""
    ty = ty.replace(' ', '')
    out = []
    while ty != elem:
        m = re.fullmatch(r'\[(.+);(\w+)\]', ty)
        if not m:
            raise Unsupported('array type ' + ty)
        out.append(m.group(2))
        ty = m.group(1)
    return out


def index_chain(a, pname):
    """AST of `self[p.y][p.x]` -> ['y', 'x'] (outermost first)"""
    idx = []
    while a[0] == 'index':
        i = a[2]
        if not (i[0] == 'field' and i[1] == ('path', [pname]) and i[2] in COORDS):
            raise Unsupported('index expression is not a coordinate of the point: ' + repr(i)[:60])
        idx.append(i[2])
        a = a[1]
    if a != ('path', ['self']):
        raise Unsupported('indexing something other than self')
    return list(reversed(idx))


def parse_storage(repo, k):
    f = f'storage_array_{k}d.rs'
    src = strip_comments((repo / (G + f)).read_text())
    m = re.search(r'impl\s*<\s*T\s*,([^>]*)>\s*Storage<T>\s*for\s*(\[[^{]*?\])\s*where', src, flags=re.S)
    if not m:
        raise Unsupported(f + ': impl Storage<T> for <array> not found')
    if len(re.findall(r'\bimpl\b', src)) != 1:
        raise Unsupported(f + ': more than one impl')
    consts = [norm(c) for c in m.group(1).split(',') if c.strip()]
    names = []
    for c in consts:
        mc = re.fullmatch(r'const (\w+): usize', c)
        if not mc:
            raise Unsupported(f + ': generic parameter ' + c)
        names.append(mc.group(1))
    nesting = array_nesting(m.group(2))
    if len(nesting) != k or sorted(nesting) != sorted(names) or len(set(nesting)) != k:
        raise Unsupported(f'{f}: impl is for {norm(m.group(2))}, expected a {k}-fold nested array over its own const parameters')
    # get / set: the place expression, possibly taken stepwise through references
    def coord(i):
        if not (i[0] == 'field' and i[1] == ('path', ['p']) and i[2] in COORDS):
            raise Unsupported(f + ': index expression is not a coordinate of the point: ' + repr(i)[:60])
        return i[2]

    def place(a, refs, used):
        """AST of `root[i]…` -> index list from `self`, outermost first; root is `self` or a reference local"""
        idx = []
        while a[0] == 'index':
            idx.append(coord(a[2]))
            a = a[1]
        idx.reverse()
        if a == ('path', ['self']):
            return idx
        if a[0] == 'path' and len(a[1]) == 1 and a[1][0] in refs:
            if a[1][0] in used:
                raise Unsupported(f'{f}: reference `{a[1][0]}` is used more than once')
            used.add(a[1][0])
            return refs[a[1][0]] + idx
        raise Unsupported(f + ': indexing something other than self or a reference into it')

    def body_of(name, want_sig, mutable):
        its = [it for it in fn_items(src) if it['name'] == name]
        if len(its) != 1:
            raise Unsupported(f'{f}: expected exactly one fn {name}')
        it = its[0]
        sig = norm(it['sig'])
        ms = re.fullmatch(want_sig, sig)
        if not ms:
            raise Unsupported(f'{f}: {name} signature ' + sig)
        blk = parse_body(it['body'])
        refs, used = {}, set()
        for st in blk[1][:-1] if (mutable and blk[2] is None) else blk[1]:
            if st[0] != 'let' or st[1][0] != 'id' or st[3][0] != 'ref' or st[1][1] in refs:
                raise Unsupported(f'{f}: {name}: statement outside the recognised grammar: ' + repr(st)[:100])
            refs[st[1][1]] = place(st[3][1], refs, used)
        return blk, refs, used, ms

    blk, refs, used, _ = body_of('get', r'fn get\(&self, p: PointIndex\) -> &T', False)
    if blk[2] is None or blk[2][0] != 'ref':
        raise Unsupported(f + ': get body does not end in `&self[..]…`')
    get_idx = place(blk[2][1], refs, used)
    if set(refs) != used:
        raise Unsupported(f'{f}: get: unused reference(s) {sorted(set(refs) - used)}')
    blk, refs, used, ms = body_of('set', r'fn set\(&mut self, p: PointIndex, (\w+): T\)', True)
    last = blk[1][-1] if blk[2] is None and blk[1] else None
    if last is None or last[0] != 'assign' or last[2] != ('path', [ms.group(1)]):
        raise Unsupported(f + ': set body does not end in `self[..]… = <value parameter>`')
    set_idx = place(last[1], refs, used)
    if set(refs) != used:
        raise Unsupported(f'{f}: set: unused reference(s) {sorted(set(refs) - used)}')
    if len(get_idx) != k or len(set_idx) != k:
        raise Unsupported(f'{f}: {k}-fold array indexed {len(get_idx)}/{len(set_idx)} times')
    return nesting, get_idx, set_idx


def parse_array_grid(repo):
    """mod.rs: variant -> nesting in ArrayGrid's own const parameters; checks new/get/set dispatch"""
    src = strip_comments((repo / (G + 'mod.rs')).read_text())
    # cfg switches
    if not re.search(r'#\[cfg\(not\(feature = "unsafe"\)\)\]\s*pub mod grid_safe;', src) or \
            not re.search(r'#\[cfg\(feature = "unsafe"\)\]\s*pub mod grid_unsafe;', src):
        raise Unsupported('mod.rs: cfg switches of grid_safe / grid_unsafe not recognised')
    gsrc = norm(strip_comments((repo / (G + 'grid.rs')).read_text()))
    want = ('#[cfg(not(feature = "unsafe"))] pub use crate::grid_type::grid_safe::Grid; '
            '#[cfg(feature = "unsafe")] pub use crate::grid_type::grid_unsafe::Grid;')
    if gsrc != want:
        raise Unsupported('grid.rs: re-export of Grid not recognised: ' + gsrc)
    if not re.search(r'use crate::prelude::\{[^}]*\bGrid\b[^}]*\};', src):
        raise Unsupported('mod.rs: Grid is not imported from the prelude')
    psrc = strip_comments((repo / 'dcl_data_structures/src/prelude.rs').read_text())
    if not re.search(r'pub use crate::grid_type::grid::Grid;', psrc):
        raise Unsupported('prelude.rs: Grid is not grid_type::grid::Grid')
    # alias
    alias = {}
    for m in re.finditer(r'type (\w+)<T((?:, const \w+: usize)*)> =\s*Grid<(\[.*?\]), T>;', src, flags=re.S):
        params = re.findall(r'const (\w+): usize', m.group(2))
        alias[m.group(1)] = (params, norm(m.group(3)))
    m = re.search(r'pub enum ArrayGrid<T, const W: usize, const H: usize, const D: usize, const C: usize>\s*where[^{]*\{([^}]*)\}', src)
    if not m:
        raise Unsupported('mod.rs: enum ArrayGrid<T, W, H, D, C> not found')
    variants = {}
    for item in [norm(q) for q in re.split(r',\s*\n', m.group(1)) if q.strip()]:
        item = item.rstrip(',')
        mv = re.fullmatch(r'(ArrayGrid(\d)D)\((.*)\)', item)
        if not mv:
            raise Unsupported('mod.rs: enum variant ' + item)
        payload = mv.group(3)
        mg = re.fullmatch(r'Grid<(\[.*\]), T>', payload)
        if mg:
            arr = mg.group(1)
        else:
            ma = re.fullmatch(r'(\w+)<T, ([\w, ]+)>', payload)
            if not ma or ma.group(1) not in alias:
                raise Unsupported('mod.rs: variant payload ' + payload)
            params, body = alias[ma.group(1)]
            args = [a.strip() for a in ma.group(2).split(',')]
            if len(args) != len(params):
                raise Unsupported('mod.rs: alias arity')
            sub = dict(zip(params, args))
            arr = re.sub(r'\b(\w+)\b', lambda mm: sub.get(mm.group(1), mm.group(1)), body)
        nest = array_nesting(arr)
        k = int(mv.group(2))
        if len(nest) != k or not set(nest) <= set(CONSTS) or len(set(nest)) != k:
            raise Unsupported(f'mod.rs: variant {mv.group(1)} holds {arr}')
        variants[k] = (mv.group(1), nest, arr)
    if sorted(variants) != [1, 2, 3, 4]:
        raise Unsupported('mod.rs: expected variants ArrayGrid1D…4D')
    fns = {}
    for it in fn_items(src):
        if it['name'] in ('new', 'get', 'set'):
            if it['name'] in fns:
                raise Unsupported(f'mod.rs: fn {it["name"]} defined twice')
            fns[it['name']] = it
    if set(fns) != {'new', 'get', 'set'}:
        raise Unsupported('mod.rs: ArrayGrid::new / get / set not found')
    # new
    it = fns['new']
    ms = re.fullmatch(r'fn new\((\w+): ArrayType\) -> (?:ArrayGrid<T, W, H, D, C>|Self)', norm(it['sig']))
    if not ms:
        raise Unsupported('mod.rs: ArrayGrid::new signature ' + norm(it['sig']))
    blk = parse_body(it['body'])
    defaults = set()                    # locals holding `T::default()` (`T: Copy`: the same value wherever it is used)

    def is_default(a):
        return a == ('call', ('path', ['T', 'default']), []) or (a[0] == 'path' and len(a[1]) == 1 and a[1][0] in defaults)

    def nesting_of(a, arrays):
        """AST of `[[d; W]; H]` -> ['H', 'W'] (outermost first)"""
        if a[0] == 'path' and len(a[1]) == 1 and a[1][0] in arrays:
            return arrays[a[1][0]]
        out = []
        while a[0] == 'repeat':
            if not (a[2][0] == 'path' and len(a[2][1]) == 1 and a[2][1][0] in CONSTS):
                raise Unsupported('mod.rs: ArrayGrid::new: array length ' + repr(a[2])[:40])
            out.append(a[2][1][0])
            a = a[1]
        if not out or not is_default(a):
            raise Unsupported('mod.rs: ArrayGrid::new: not an all-default array: ' + repr(a)[:60])
        return out
    for st in blk[1]:
        if st[0] == 'let' and st[1][0] == 'id' and st[3] == ('call', ('path', ['T', 'default']), []):
            defaults.add(st[1][1])
        else:
            raise Unsupported('mod.rs: ArrayGrid::new: statement ' + repr(st)[:80])
    t = blk[2]
    if t is None or t[0] != 'match' or t[1] != ('path', [ms.group(1)]):
        raise Unsupported('mod.rs: ArrayGrid::new body is not a match on its argument')
    seen = set()
    for pat, body in t[2]:
        mp = re.fullmatch(r'ArrayType :: Array(\d)D', pat)
        if not mp or int(mp.group(1)) in seen:
            raise Unsupported('mod.rs: ArrayGrid::new arm ' + pat)
        k = int(mp.group(1))
        arrays = {}
        if body[0] == 'block':
            for st in body[1]:
                if st[0] != 'let' or st[1][0] != 'id':
                    raise Unsupported('mod.rs: ArrayGrid::new arm statement ' + repr(st)[:80])
                arrays[st[1][1]] = nesting_of(st[3], arrays)
            body = body[2]
        ok = (body is not None and body[0] == 'call' and body[1][0] == 'path' and body[1][1] in (['ArrayGrid', f'ArrayGrid{k}D'], ['Self', f'ArrayGrid{k}D'])
              and len(body[2]) == 1)
        inner = body[2][0] if ok else None
        if not ok or inner[0] != 'call' or inner[1][0] != 'path' or len(inner[2]) != 1 or inner[1][1][-1] != 'new' or \
                not (inner[1][1] == ['Grid', 'new'] or (len(inner[1][1]) == 3 and inner[1][1][0] in alias and
                                                         re.fullmatch(r'<T(,\w+)*>', inner[1][1][1]))):
            raise Unsupported(f'mod.rs: ArrayGrid::new arm for {pat}: ' + repr(body)[:100])
        # (the type checker ties the array handed to Grid::new to the variant's payload type; the nesting is compared anyway)
        if nesting_of(inner[2][0], arrays) != variants[k][1]:
            raise Unsupported(f'mod.rs: ArrayGrid::new builds another array than variant {k} holds')
        seen.add(k)
    if seen != {1, 2, 3, 4}:
        raise Unsupported('mod.rs: ArrayGrid::new does not cover all four array types')
    # get / set dispatch
    for fname, sigw in (('get', r'fn get\(&self, (\w+): PointIndex\) -> T'),
                        ('set', r'fn set\(&self, (\w+): PointIndex, (\w+): T\)')):
        it = fns[fname]
        ms = re.fullmatch(sigw, norm(it['sig']))
        if not ms:
            raise Unsupported(f'mod.rs: ArrayGrid::{fname} signature ' + norm(it['sig']))
        blk = parse_body(it['body'])
        t = blk[2]
        if blk[1] or t is None or t[0] != 'match' or t[1] != ('path', ['self']):
            raise Unsupported(f'mod.rs: ArrayGrid::{fname} body is not a match on self')
        got = set()
        for pat, body in t[2]:
            mp = re.fullmatch(r'(?:ArrayGrid|Self) :: ArrayGrid(\d)D \( (\w+) \)', pat)
            want = ('mcall', ('path', [mp.group(2)]), fname, [('path', [g]) for g in ms.groups()]) if mp else None
            if not mp or strip_blocks(body) != want or int(mp.group(1)) in got:
                raise Unsupported(f'mod.rs: ArrayGrid::{fname} arm {pat}')
            got.add(int(mp.group(1)))
        if got != {1, 2, 3, 4}:
            raise Unsupported(f'mod.rs: ArrayGrid::{fname} does not cover all variants')
    return variants


# ----------------------------------------------------------------------------------------------
# Grid<S, T> of grid_safe.rs / grid_unsafe.rs
# ----------------------------------------------------------------------------------------------
class GridTr:
    """translates the bodies of Grid::get / Grid::set as control-flow trees. `fields`: Rust field name -> role
    ('refcell' | 'plain' storage, 'flag', 'marker'); `flagname`: Rust flag field -> Lean field"""

    def __init__(self, lean, fields, flagname, where):
        self.lean, self.fields, self.flagname, self.where = lean, fields, flagname, where
        self.storage = next(n for n, t in fields.items() if t in ('refcell', 'plain'))
        self.cell = fields[self.storage] == 'refcell'

    def fail(self, msg):
        raise Unsupported(f'{self.where}: {msg}')

    def is_field(self, a, name):
        return a == ('field', ('path', ['self']), name)

    # ---- get ----------------------------------------------------------------------------------
    def storage_ref(self, a, env):
        """an expression denoting (a shared borrow of) the storage"""
        if self.cell:
            if a == ('mcall', ('field', ('path', ['self']), self.storage), 'borrow', []):
                return True
            return a[0] == 'path' and len(a[1]) == 1 and env.get(a[1][0]) == 'guard'
        return self.is_field(a, self.storage)

    def storage_get(self, a, env):
        """`<storage>.get(p)`"""
        return a[0] == 'mcall' and a[2] == 'get' and a[3] == [('path', [self.p])] and self.storage_ref(a[1], env)

    def unbox(self, a):
        """black_box(x) = x (std::hint::black_box is the identity function)"""
        while a[0] == 'call' and a[1] in (('path', ['black_box']), ('path', ['std', 'hint', 'black_box']), ('path', ['hint', 'black_box'])) \
                and len(a[2]) == 1:
            a = a[2][0]
        return a[1] if a[0] == 'paren' else a

    def flag_cond(self, c):
        """`self.<flag>.load(Ordering::_)` / its negation -> (Lean field, positive?)"""
        pos = True
        while c[0] in ('not', 'paren'):
            if c[0] == 'not':
                pos = not pos
            c = c[1]
        if (c[0] == 'mcall' and c[2] == 'load' and c[1][0] == 'field' and c[1][1] == ('path', ['self'])
                and self.fields.get(c[1][2]) == 'flag' and len(c[3]) == 1 and c[3][0][0] == 'path' and c[3][0][1][:1] == ['Ordering']):
            return self.flagname[c[1][2]], pos
        self.fail('condition ' + repr(c)[:80])

    def value(self, a, env, indent):
        """an expression of type T -> Lean lines computing `Option Int`"""
        if a == ('call', ('path', ['T', 'default']), []):
            return [f'{indent}some 0']
        if a[0] == 'deref':
            r = self.unbox(a[1])
            if r[0] == 'path' and len(r[1]) == 1 and env.get(r[1][0], ('', ''))[0] == 'cellref':
                return [f'{indent}some {env[r[1][0]][1]}']
            if self.storage_get(r, env):
                return [f'{indent}Storage.get k e self.storage p']
        self.fail('value expression outside the recognised grammar: ' + repr(a)[:100])

    def get_seq(self, stmts, tail, env, indent, cont):
        lines = []
        for i, st in enumerate(stmts):
            def rest(i=i):
                return self.get_seq(stmts[i + 1:], tail, dict(env), indent, cont)
            if st[0] == 'let' and st[1][0] == 'id':
                name, rhs = st[1][1], st[3]
                if self.cell and rhs == ('mcall', ('field', ('path', ['self']), self.storage), 'borrow', []):
                    env[name] = 'guard'
                    lines.append(f'{indent}-- {name}: shared borrow of the RefCell (plain access: calls are sequential)')
                    continue
                r = self.unbox(rhs)
                if self.storage_get(r, env):
                    lean = name if re.fullmatch(r'[a-z]\w*', name) and name not in ('self', 'p', 'k', 'e', 'none', 'some') else 'cell'
                    env[name] = ('cellref', lean)
                    lines += [f'{indent}match Storage.get k e self.storage p with', f'{indent}| none => none', f'{indent}| some {lean} =>']
                    continue
                self.fail('let outside the recognised grammar: ' + repr(st)[:100])
            if st[0] == 'expr' and st[1][0] == 'call' and self.unbox(st[1]) != st[1]:
                x = self.unbox(st[1])
                if x[0] == 'path' and len(x[1]) == 1 and (env.get(x[1][0], ('', ''))[0] == 'cellref' or x[1][0] == getattr(self, 'v', None)):
                    lines.append(f'{indent}-- black_box({x[1][0]}): optimisation barrier, no effect')
                    continue
                self.fail('black_box of ' + repr(x)[:60])
            if st[0] == 'return':
                if st[1] is None or i + 1 < len(stmts) or tail is not None:
                    self.fail('return without value / unreachable statements after return')
                return lines + self.value(st[1], env, indent)
            if st[0] == 'expr' and st[1][0] == 'if':
                return lines + self.get_if(st[1], env, indent, rest)
            self.fail('statement outside the recognised grammar: ' + repr(st)[:100])
        if tail is not None:
            if tail[0] == 'if':
                return lines + self.get_if(tail, env, indent, None)
            return lines + self.value(tail, env, indent)
        if cont is None:
            self.fail('control reaches the end of a block that must produce the value')
        return lines + cont()

    def get_if(self, e, env, indent, cont):
        flag, pos = self.flag_cond(e[1])
        then = lambda ind: self.get_seq(e[2][1], e[2][2], dict(env), ind, cont and (lambda: cont_at(ind)))
        def cont_at(ind):
            return self.reindent(cont(), indent, ind)
        if e[3] is None:
            if cont is None:
                self.fail('`if` without `else` where a value is required')
            els = lambda ind: cont_at(ind)
        elif e[3][0] == 'if':
            els = lambda ind: self.get_if(e[3], dict(env), ind, cont and (lambda: cont_at(ind)))
        else:
            els = lambda ind: self.get_seq(e[3][1], e[3][2], dict(env), ind, cont and (lambda: cont_at(ind)))
        a, b = (then, els) if pos else (els, then)           # `if !c { A } else { B }` = `if c { B } else { A }`
        return [f'{indent}if self.{flag} then'] + a(indent + '  ') + [f'{indent}else'] + b(indent + '  ')

    @staticmethod
    def reindent(lines, old, new):
        return [new + l[len(old):] if l.startswith(old) else l for l in lines]

    # ---- set ----------------------------------------------------------------------------------
    def set_block(self, blk, indent):
        """returns Lean lines computing `Option <Grid>`"""
        stmts, tail = list(blk[1]), blk[2]
        while len(stmts) == 1 and tail is None and stmts[0][0] == 'expr' and stmts[0][1][0] == 'unsafe':
            stmts, tail = list(stmts[0][1][1][1]), stmts[0][1][1][2]
        if tail is not None and tail[0] == 'unsafe' and not stmts:
            stmts, tail = list(tail[1][1]), tail[1][2]
        if tail is not None:
            self.fail('set ends in an expression')
        lines, ptrs, guards, done = [], set(), set(), False
        sfield = ('field', ('path', ['self']), self.storage)
        for st in stmts:
            if done:
                self.fail('statement after the store: ' + repr(st)[:80])
            if st[0] == 'let' and st[1][0] == 'id':
                rhs = st[3]
                raw = (rhs == ('cast', ('cast', ('ref', sfield), '*const S'), '*mut S') or
                       rhs == ('mcall', ('macro', 'std::ptr::addr_of', [sfield]), 'cast_mut', []) or
                       rhs == ('mcall', ('macro', 'ptr::addr_of', [sfield]), 'cast_mut', []) or
                       rhs == ('mcall', ('macro', 'addr_of', [sfield]), 'cast_mut', []))
                if raw and not self.cell:
                    ptrs.add(st[1][1])
                    lines.append(f'{indent}-- {st[1][1]}: raw pointer to self.storage (same cells)')
                    continue
                if self.cell and rhs == ('mcall', sfield, 'borrow_mut', []):
                    guards.add(st[1][1])
                    lines.append(f'{indent}-- {st[1][1]}: exclusive borrow of the RefCell (plain access: calls are sequential)')
                    continue
            if st[0] == 'expr' and st[1] == ('call', ('path', ['black_box']), [('path', [self.v])]):
                lines.append(f'{indent}-- black_box({self.v}): optimisation barrier, no effect')
                continue
            if st[0] == 'expr' and st[1][0] == 'mcall' and st[1][2] == 'set' and st[1][3] == [('path', [self.p]), ('path', [self.v])]:
                tgt = st[1][1]
                if self.cell and (tgt == ('mcall', sfield, 'borrow_mut', []) or (tgt[0] == 'path' and len(tgt[1]) == 1 and tgt[1][0] in guards)):
                    done = True
                if not self.cell and tgt[0] == 'paren' and tgt[1][0] == 'deref' and tgt[1][1][0] == 'path' and \
                        len(tgt[1][1][1]) == 1 and tgt[1][1][1][0] in ptrs:
                    done = True
                if done:
                    lines.append(f'{indent}(Storage.set k e self.storage p value).map (fun s => {{ self with storage := s }})')
                    continue
            self.fail('statement outside the recognised grammar: ' + repr(st)[:100])
        if not done:
            self.fail('set does not store')
        return lines


def parse_grid_impl(repo, fname, lean):
    src = strip_comments((repo / (G + fname)).read_text())
    m = re.search(r'pub struct Grid<S, T>\s*where[^{]*\{([^}]*)\}', src)
    if not m:
        raise Unsupported(fname + ': struct Grid<S, T> not found')
    fields = {}
    for item in [norm(q) for q in m.group(1).split(',') if q.strip()]:
        mi = re.fullmatch(r'(\w+): (.+)', item)
        if not mi:
            raise Unsupported(fname + ': field ' + item)
        n, ty = mi.group(1), mi.group(2)
        if ty == 'RefCell<S>':
            fields[n] = 'refcell'
        elif ty == 'S':
            fields[n] = 'plain'
        elif ty == 'AtomicBool':
            fields[n] = 'flag'
        elif ty in ('std::marker::PhantomData<T>', 'PhantomData<T>', 'marker::PhantomData<T>'):
            fields[n] = 'marker'
        else:
            raise Unsupported(f'{fname}: field {n}: {ty}')
    stor = [n for n, t in fields.items() if t in ('refcell', 'plain')]
    if len(stor) != 1:
        raise Unsupported(fname + ': expected exactly one storage field (type S or RefCell<S>)')
    stor = stor[0]
    flags = [n for n, t in fields.items() if t == 'flag']
    # Lean names: the storage field is `storage`; a single flag is `initialized` (consistent renaming)
    flagname = {flags[0]: 'initialized'} if len(flags) == 1 else {fl: fl for fl in flags}
    if 'storage' in flagname.values():
        raise Unsupported(fname + ': a flag is called `storage`')
    fns = {}
    for it in fn_items(src):
        if it['name'] in ('new', 'get', 'set'):
            if it['name'] in fns:
                raise Unsupported(f'{fname}: fn {it["name"]} defined twice')
            fns[it['name']] = it
    if set(fns) != {'new', 'get', 'set'}:
        raise Unsupported(fname + ': Grid::new / get / set not found')
    # new
    ms = re.fullmatch(r'fn new\((\w+): S\) -> Self', norm(fns['new']['sig']))
    if not ms:
        raise Unsupported(fname + ': new signature ' + norm(fns['new']['sig']))
    sparam = ms.group(1)
    blk = parse_body(fns['new']['body'])
    t = blk[2]
    if blk[1] or t is None or t[0] != 'struct' or t[1] not in (['Self'], ['Grid']):
        raise Unsupported(fname + ': new body is not a single struct literal')
    init = {}
    for n, v in t[2]:
        if n not in fields or n in init:
            raise Unsupported(f'{fname}: new initialiser of {n}')
        ty = fields[n]
        if ty == 'refcell' and v == ('call', ('path', ['RefCell', 'new']), [('path', [sparam])]) or ty == 'plain' and v == ('path', [sparam]):
            init[n] = 'storage'
        elif ty == 'flag' and v[0] == 'call' and v[1] == ('path', ['AtomicBool', 'new']) and v[2] in ([('path', ['true'])], [('path', ['false'])]):
            init[n] = v[2][0][1][0]
        elif ty == 'marker' and v in (('path', ['std', 'marker', 'PhantomData']), ('path', ['PhantomData']), ('path', ['marker', 'PhantomData'])):
            init[n] = 'marker'
        else:
            raise Unsupported(f'{fname}: new initialises {n} with ' + repr(v)[:80])
    if set(init) != set(fields):
        raise Unsupported(fname + ': new does not initialise every field')
    # the flag is written nowhere else: every other occurrence must be the `.load(` in get
    for fl in flags:
        occ = len(re.findall(r'\b' + fl + r'\b', src))
        loads = len(re.findall(r'self\.' + fl + r'\.load\(', src))
        if occ != 2 + loads:
            raise Unsupported(f'{fname}: field {fl} is used other than by struct, new and load')
    renamed = [f'`{stor}` is `storage`'] * (stor != 'storage') + [f'`{a}` is `{b}`' for a, b in flagname.items() if a != b]
    out = [f'/-- `Grid<S, T>` of {fname}' + (' (`RefCell` as a plain cell: calls are sequential)' if fields[stor] == 'refcell' else '') +
           ('; field ' + ', '.join(renamed) if renamed else '') + ' -/',
           f'structure {lean} where', '  storage : Cells'] + [f'  {flagname[fl]} : Bool' for fl in flags] + ['']
    out.append(f'def {lean}.new (storage : Cells) : {lean} := {{ ' +
               ', '.join(['storage := storage'] + [f'{flagname[fl]} := {init[fl]}' for fl in flags]) + ' }')
    tr = GridTr(lean, fields, flagname, fname)
    ms = re.fullmatch(r'fn get\(&self, (\w+): PointIndex\) -> T', norm(fns['get']['sig']))
    if not ms:
        raise Unsupported(fname + ': get signature ' + norm(fns['get']['sig']))
    tr.p = ms.group(1)
    blk = parse_body(fns['get']['body'])
    out += ['/-- `none` = panic (index out of bounds) -/',
            f'def {lean}.get (k : Kind) (e : Ext) (self : {lean}) (p : Pt) : Option Int :='] + tr.get_seq(blk[1], blk[2], {}, '  ', None)
    ms = re.fullmatch(r'fn set\(&self, (\w+): PointIndex, (\w+): T\)', norm(fns['set']['sig']))
    if not ms:
        raise Unsupported(fname + ': set signature ' + norm(fns['set']['sig']))
    tr.p, tr.v = ms.group(1), ms.group(2)
    out += ['/-- `none` = panic (index out of bounds), nothing stored -/',
            f'def {lean}.set (k : Kind) (e : Ext) (self : {lean}) (p : Pt) (value : Int) : Option {lean} :='] + \
        tr.set_block(parse_body(fns['set']['body']), '  ')
    out.append('')
    return out


PRELUDE = '''/-! ### assumed semantics of nested Rust arrays (fixed text, not derived from the source)
A storage is a function from address lists (outermost index first) to values. `a[i₁][i₂]…` panics unless every
index is below the length of its level (`inb`); a store changes exactly the addressed cell. -/
abbrev Cells := List Nat → Int

def defaultCells : Cells := fun _ => 0

def inb : (addr lens : List Nat) → Bool
  | [], [] => true
  | i :: is, n :: ns => decide (i < n) && inb is ns
  | _, _ => false

def readAt (lens : List Nat) (s : Cells) (addr : List Nat) : Option Int :=
  if inb addr lens then some (s addr) else none

def writeAt (lens : List Nat) (s : Cells) (addr : List Nat) (v : Int) : Option Cells :=
  if inb addr lens then some (fun a => if a = addr then v else s a) else none
'''


def gen_grid(repo):
    ctors = parse_point_ctors(repo)
    storages = {k: parse_storage(repo, k) for k in (1, 2, 3, 4)}
    variants = parse_array_grid(repo)
    out = ['-- GENERATED by /verif/tools/rs2lean.py grid from /repo — do not edit, regenerated on every check run',
           'namespace Gen.Grid', '']
    out += point_lean(ctors, '')
    out += [PRELUDE]
    out += ['/-- the const parameters of `ArrayGrid<T, W, H, D, C>` -/',
            'structure Ext where', '  W : Nat', '  H : Nat', '  D : Nat', '  C : Nat', 'deriving DecidableEq, Repr', '',
            '/-- the variants `ArrayGrid1D … ArrayGrid4D` -/',
            'inductive Kind where', '  | k1 | k2 | k3 | k4', 'deriving DecidableEq, Repr', '']
    out += ['/-- mod.rs: the array type each variant holds, as the list of its lengths, outermost first:']
    out += [f'    `{variants[k][0]}`: `{variants[k][2]}`' for k in (1, 2, 3, 4)] + ['-/']
    out += ['def nest : Kind → Ext → List Nat']
    out += [f'  | .k{k}, e => [{", ".join("e." + c for c in variants[k][1])}]' for k in (1, 2, 3, 4)] + ['']
    for which, pos, doc in (('getAddr', 1, 'get: `&self[…]…`'), ('setAddr', 2, 'set: `self[…]… = elem`')):
        out += [f'/-- storage_array_*.rs {doc}: the index list, outermost first -/', f'def {which} : Kind → Pt → List Nat']
        out += [f'  | .k{k}, p => [{", ".join("p." + c for c in storages[k][pos])}]' for k in (1, 2, 3, 4)] + ['']
    out += ['/-- `Storage::get` of the storage a variant holds; `none` = panic -/',
            'def Storage.get (k : Kind) (e : Ext) (s : Cells) (p : Pt) : Option Int := readAt (nest k e) s (getAddr k p)',
            '/-- `Storage::set`; `none` = panic, nothing stored -/',
            'def Storage.set (k : Kind) (e : Ext) (s : Cells) (p : Pt) (v : Int) : Option Cells :=',
            '  writeAt (nest k e) s (setAddr k p) v', '']
    out += parse_grid_impl(repo, 'grid_safe.rs', 'SafeGrid')
    out += parse_grid_impl(repo, 'grid_unsafe.rs', 'UnsafeGrid')
    for lean, build in (('SafeGrid', 'without'), ('UnsafeGrid', 'with')):
        ag = 'Array' + lean
        out += [f'/-- `ArrayGrid` in the build {build} feature `unsafe` (grid.rs re-exports {"grid_safe" if lean == "SafeGrid" else "grid_unsafe"}::Grid):',
                '    `new` stores an all-default array in the chosen variant, `get`/`set` dispatch to that variant\'s grid -/',
                f'structure {ag} where', '  kind : Kind', f'  grid : {lean}', '',
                f'def {ag}.new (k : Kind) : {ag} := {{ kind := k, grid := {lean}.new defaultCells }}',
                f'def {ag}.get (e : Ext) (self : {ag}) (p : Pt) : Option Int := {lean}.get self.kind e self.grid p',
                f'def {ag}.set (e : Ext) (self : {ag}) (p : Pt) (value : Int) : Option {ag} :=',
                f'  ({lean}.set self.kind e self.grid p value).map (fun g => {{ self with grid := g }})', '']
    out += ['end Gen.Grid', '']
    return '\n'.join(out)


def install(register):
    def guarded(repo):
        # the generator only returns text (rs2lean.py writes it, whole, when it changed); any unexpected exception on
        # unforeseen input is a rejection of the source as well, never a crash of the translator run
        try:
            return gen_grid(repo)
        except Unsupported:
            raise
        except Exception as ex:      # noqa: BLE001
            raise Unsupported(f'grid: internal {type(ex).__name__}: {ex}')
    register('grid', 'GridAddr.lean')(guarded)
