"""rs2lean generator `grid` (C17): dcl_data_structures/src/grid_type/*.rs -> Gen/GridAddr.lean.

What is read from the source, and what it becomes:

  point.rs                 PointIndex::new1d…new4d            -> `Pt`, `Pt.new1d` … `Pt.new4d`
  storage_array_{1..4}d.rs `impl Storage<T> for [[T; A]; B]…` -> `getAddr k p`, `setAddr k p`: the index list, outermost
                           get: `&self[i1][i2]…`                 first, *separately* for get and set, and the nesting depth
                           set: `self[i1][i2]… = elem`           of the array type the impl is for
  mod.rs                   enum ArrayGrid variants (+ alias)   -> `nest k e`: which const parameter of ArrayGrid<T,W,H,D,C>
                                                                 bounds which index position (outermost first);
                           ArrayGrid::new / get / set          -> checked to build an all-default array of exactly that type
                                                                 and to dispatch every variant to `grid.get(p)` / `grid.set(p, value)`
  grid.rs, mod.rs          cfg(feature = "unsafe") switches    -> which `Grid` each build uses (`safeBuildUses…` comments, checked)
  grid_safe.rs             Grid::{new,get,set}                 -> `SafeGrid.*`   (RefCell borrow = plain access, sequential)
  grid_unsafe.rs           Grid::{new,get,set}                 -> `UnsafeGrid.*` (the `initialized` flag is modelled; the
                                                                 raw-pointer write is a plain write to the same storage)

The semantics of nested Rust array indexing (`a[i][j]` panics unless every index is below the length of its
level; a store changes exactly the addressed cell) is the fixed prelude `Cells/inb/readAt/writeAt` below — that part is
assumed (DESIGN §3), not derived. Anything outside the recognised shapes raises Unsupported (fail closed).
"""
import re
from rsexpr import Unsupported, strip_comments, parse_expr, split_statements, find_fn
from rs2lean_adjustable import parse_point_ctors, point_lean

G = 'dcl_data_structures/src/grid_type/'
COORDS = ('x', 'y', 'z', 't')
CONSTS = ('W', 'H', 'D', 'C')


def norm(s):
    return ' '.join(s.split())


def array_nesting(ty, elem='T'):
    """`[[[T; W]; H]; D]` -> ['D', 'H', 'W'] (outermost first)"""
    ty = ty.replace(' ', '')
    out = []
    while ty != elem:
        m = re.fullmatch(r'\[(.+);(\w+)\]', ty)
        if not m:
            raise Unsupported('array type ' + ty)
        out.append(m.group(2))
        ty = m.group(1)
    return out


def index_chain(a, pname):
    """AST of `self[p.y][p.x]` -> ['y', 'x'] (outermost first)"""
    idx = []
    while a[0] == 'index':
        i = a[2]
        if not (i[0] == 'field' and i[1] == ('path', [pname]) and i[2] in COORDS):
            raise Unsupported('index expression is not a coordinate of the point: ' + repr(i)[:60])
        idx.append(i[2])
        a = a[1]
    if a != ('path', ['self']):
        raise Unsupported('indexing something other than self')
    return list(reversed(idx))


def parse_storage(repo, k):
    f = f'storage_array_{k}d.rs'
    src = strip_comments((repo / (G + f)).read_text())
    m = re.search(r'impl\s*<\s*T\s*,([^>]*)>\s*Storage<T>\s*for\s*(\[[^{]*?\])\s*where', src, flags=re.S)
    if not m:
        raise Unsupported(f + ': impl Storage<T> for <array> not found')
    if len(re.findall(r'\bimpl\b', src)) != 1:
        raise Unsupported(f + ': more than one impl')
    consts = [norm(c) for c in m.group(1).split(',') if c.strip()]
    names = []
    for c in consts:
        mc = re.fullmatch(r'const (\w+): usize', c)
        if not mc:
            raise Unsupported(f + ': generic parameter ' + c)
        names.append(mc.group(1))
    nesting = array_nesting(m.group(2))
    if len(nesting) != k or sorted(nesting) != sorted(names) or len(set(nesting)) != k:
        raise Unsupported(f'{f}: impl is for {norm(m.group(2))}, expected a {k}-fold nested array over its own const parameters')
    # get
    sig, body = find_fn(src, 'get')
    if norm(sig) != 'fn get(&self, p: PointIndex) -> &T':
        raise Unsupported(f + ': get signature ' + sig)
    a = parse_expr(norm(body))
    if a[0] != 'ref':
        raise Unsupported(f + ': get body is not `&self[..]…`')
    get_idx = index_chain(a[1], 'p')
    # set
    sig, body = find_fn(src, 'set')
    if norm(sig) != 'fn set(&mut self, p: PointIndex, elem: T)':
        raise Unsupported(f + ': set signature ' + sig)
    ms = re.fullmatch(r'(self(?:\[[^\]=]*\])+) = elem;?', norm(body))
    if not ms:
        raise Unsupported(f + ': set body is not `self[..]… = elem`: ' + norm(body))
    set_idx = index_chain(parse_expr(ms.group(1)), 'p')
    if len(get_idx) != k or len(set_idx) != k:
        raise Unsupported(f'{f}: {k}-fold array indexed {len(get_idx)}/{len(set_idx)} times')
    return nesting, get_idx, set_idx


def parse_array_grid(repo):
    """mod.rs: variant -> nesting in ArrayGrid's own const parameters; checks new/get/set dispatch"""
    src = strip_comments((repo / (G + 'mod.rs')).read_text())
    # cfg switches
    if not re.search(r'#\[cfg\(not\(feature = "unsafe"\)\)\]\s*pub mod grid_safe;', src) or \
            not re.search(r'#\[cfg\(feature = "unsafe"\)\]\s*pub mod grid_unsafe;', src):
        raise Unsupported('mod.rs: cfg switches of grid_safe / grid_unsafe not recognised')
    gsrc = norm(strip_comments((repo / (G + 'grid.rs')).read_text()))
    want = ('#[cfg(not(feature = "unsafe"))] pub use crate::grid_type::grid_safe::Grid; '
            '#[cfg(feature = "unsafe")] pub use crate::grid_type::grid_unsafe::Grid;')
    if gsrc != want:
        raise Unsupported('grid.rs: re-export of Grid not recognised: ' + gsrc)
    if not re.search(r'use crate::prelude::\{[^}]*\bGrid\b[^}]*\};', src):
        raise Unsupported('mod.rs: Grid is not imported from the prelude')
    psrc = strip_comments((repo / 'dcl_data_structures/src/prelude.rs').read_text())
    if not re.search(r'pub use crate::grid_type::grid::Grid;', psrc):
        raise Unsupported('prelude.rs: Grid is not grid_type::grid::Grid')
    # alias
    alias = {}
    for m in re.finditer(r'type (\w+)<T((?:, const \w+: usize)*)> =\s*Grid<(\[.*?\]), T>;', src, flags=re.S):
        params = re.findall(r'const (\w+): usize', m.group(2))
        alias[m.group(1)] = (params, norm(m.group(3)))
    m = re.search(r'pub enum ArrayGrid<T, const W: usize, const H: usize, const D: usize, const C: usize>\s*where[^{]*\{([^}]*)\}', src)
    if not m:
        raise Unsupported('mod.rs: enum ArrayGrid<T, W, H, D, C> not found')
    variants = {}
    for item in [norm(q) for q in re.split(r',\s*\n', m.group(1)) if q.strip()]:
        item = item.rstrip(',')
        mv = re.fullmatch(r'(ArrayGrid(\d)D)\((.*)\)', item)
        if not mv:
            raise Unsupported('mod.rs: enum variant ' + item)
        payload = mv.group(3)
        mg = re.fullmatch(r'Grid<(\[.*\]), T>', payload)
        if mg:
            arr = mg.group(1)
        else:
            ma = re.fullmatch(r'(\w+)<T, ([\w, ]+)>', payload)
            if not ma or ma.group(1) not in alias:
                raise Unsupported('mod.rs: variant payload ' + payload)
            params, body = alias[ma.group(1)]
            args = [a.strip() for a in ma.group(2).split(',')]
            if len(args) != len(params):
                raise Unsupported('mod.rs: alias arity')
            sub = dict(zip(params, args))
            arr = re.sub(r'\b(\w+)\b', lambda mm: sub.get(mm.group(1), mm.group(1)), body)
        nest = array_nesting(arr)
        k = int(mv.group(2))
        if len(nest) != k or not set(nest) <= set(CONSTS) or len(set(nest)) != k:
            raise Unsupported(f'mod.rs: variant {mv.group(1)} holds {arr}')
        variants[k] = (mv.group(1), nest, arr)
    if sorted(variants) != [1, 2, 3, 4]:
        raise Unsupported('mod.rs: expected variants ArrayGrid1D…4D')
    # new
    sig, body = find_fn(src, 'new')
    if norm(sig) != 'fn new(array_type: ArrayType) -> ArrayGrid<T, W, H, D, C>':
        raise Unsupported('mod.rs: ArrayGrid::new signature ' + sig)
    mm = re.fullmatch(r'match array_type \{(.*)\}', norm(body))
    if not mm:
        raise Unsupported('mod.rs: ArrayGrid::new body')
    arms = [a.strip() for a in re.split(r',\s*(?=ArrayType::)', mm.group(1)) if a.strip()]
    seen = set()
    for arm in arms:
        arm = arm.rstrip(',').strip()
        ma = re.fullmatch(r'ArrayType::Array(\d)D => ArrayGrid::ArrayGrid(\d)D\((?:Grid|\w+::<T, [\w, ]+>)::new\( ?(\[.*\]),? ?\)\)', arm)
        if not ma or ma.group(1) != ma.group(2):
            raise Unsupported('mod.rs: ArrayGrid::new arm ' + arm)
        k = int(ma.group(1))
        if array_nesting(ma.group(3), elem='T::default()') != variants[k][1]:
            raise Unsupported(f'mod.rs: ArrayGrid::new builds {ma.group(3)} for variant {k}')
        seen.add(k)
    if seen != {1, 2, 3, 4}:
        raise Unsupported('mod.rs: ArrayGrid::new does not cover all four array types')
    # get / set dispatch
    for fname, sigw, call in (('get', 'fn get(&self, p: PointIndex) -> T', 'grid.get(p)'),
                              ('set', 'fn set(&self, p: PointIndex, value: T)', 'grid.set(p, value)')):
        sig, body = find_fn(src, fname)
        if norm(sig) != sigw:
            raise Unsupported(f'mod.rs: ArrayGrid::{fname} signature ' + sig)
        mm = re.fullmatch(r'match self \{(.*)\}', norm(body))
        if not mm:
            raise Unsupported(f'mod.rs: ArrayGrid::{fname} body')
        arms = [a.strip().rstrip(',') for a in mm.group(1).split('ArrayGrid::ArrayGrid') if a.strip()]
        got = set()
        for arm in arms:
            ma = re.fullmatch(r'(\d)D\(grid\) => (.*)', arm)
            if not ma or ma.group(2).strip() != call:
                raise Unsupported(f'mod.rs: ArrayGrid::{fname} arm ArrayGrid::ArrayGrid{arm}')
            got.add(int(ma.group(1)))
        if got != {1, 2, 3, 4}:
            raise Unsupported(f'mod.rs: ArrayGrid::{fname} does not cover all variants')
    return variants


# ----------------------------------------------------------------------------------------------
# Grid<S, T> of grid_safe.rs / grid_unsafe.rs
# ----------------------------------------------------------------------------------------------
def split_if_else(text):
    """`if C { A } else { B }` -> (C, A, B) or None"""
    m = re.match(r'if (.+?) \{', text)
    if not m:
        return None

    def block(text, i):
        depth, j = 1, i
        while depth:
            if j >= len(text):
                raise Unsupported('unbalanced braces')
            depth += (text[j] == '{') - (text[j] == '}')
            j += 1
        return text[i:j - 1].strip(), j
    a, j = block(text, m.end())
    rest = text[j:].strip()
    m2 = re.match(r'else \{', rest)
    if not m2:
        return None
    b, j2 = block(rest, m2.end())
    if rest[j2:].strip():
        return None
    return m.group(1), a, b


class GridTr:
    """translates the bodies of Grid::get / Grid::set; `lean` is the structure name"""

    def __init__(self, lean, fields, where):
        self.lean, self.fields, self.where = lean, fields, where

    def fail(self, msg):
        raise Unsupported(f'{self.where}: {msg}')

    def get_block(self, text, indent):
        """a block that evaluates to a `T`: returns Lean lines computing `Option Int`"""
        ie = split_if_else(text)
        if ie:
            c, a, b = ie
            mc = re.fullmatch(r'self\.(\w+)\.load\(Ordering::\w+\)', c)
            if not mc or self.fields.get(mc.group(1)) != 'flag':
                self.fail('condition ' + c)
            return ([f'{indent}if self.{mc.group(1)} then'] + self.get_block(a, indent + '  ') +
                    [f'{indent}else'] + self.get_block(b, indent + '  '))
        lines, refs = [], {}
        stmts = split_statements(text)
        for n, st in enumerate(stmts):
            last = n == len(stmts) - 1
            m = re.fullmatch(r'let (\w+) = self\.storage(\.borrow\(\))?\.get\(p\);', st)
            if m and not last:
                self.check_borrow(m.group(2))
                lines.append(f'{indent}match Storage.get k e self.storage p with')
                lines.append(f'{indent}| none => none')
                lines.append(f'{indent}| some {m.group(1)} =>')
                refs[m.group(1)] = True
                continue
            m = re.fullmatch(r'black_box\((\w+)\);', st)
            if m and not last and (m.group(1) in refs or m.group(1) == 'value'):
                lines.append(f'{indent}-- black_box({m.group(1)}): optimisation barrier, no effect')
                continue
            if last:
                m = re.fullmatch(r'\*(\w+)', st)
                if m and m.group(1) in refs:
                    return lines + [f'{indent}some {m.group(1)}']
                m = re.fullmatch(r'\*self\.storage(\.borrow\(\))?\.get\(p\)', st)
                if m:
                    self.check_borrow(m.group(1))
                    return lines + [f'{indent}Storage.get k e self.storage p']
                if st == 'T::default()':
                    return lines + [f'{indent}some 0']
            self.fail('statement outside the recognised grammar: ' + st)
        self.fail('empty block')

    def check_borrow(self, borrow):
        cell = self.fields['storage'] == 'refcell'
        if bool(borrow) != cell:
            self.fail('storage access does not match the field type (RefCell borrow vs plain field)')

    def set_block(self, text, indent):
        """returns Lean lines computing `Option <Grid>`"""
        stmts = split_statements(text)
        if len(stmts) == 1:
            m = re.fullmatch(r'unsafe \{(.*)\}', stmts[0])
            if m:
                stmts = split_statements(m.group(1).strip())
        lines, alias, done = [], None, False
        for st in stmts:
            if done:
                self.fail('statement after the store: ' + st)
            m = re.fullmatch(r'let (\w+) = &self\.storage as \*const S as \*mut S;', st)
            if m and self.fields['storage'] == 'plain':
                alias = m.group(1)
                lines.append(f'{indent}-- {m.group(1)}: raw pointer to self.storage (same cells)')
                continue
            m = re.fullmatch(r'black_box\(value\);', st)
            if m:
                lines.append(f'{indent}-- black_box(value): optimisation barrier, no effect')
                continue
            m = re.fullmatch(r'self\.storage\.borrow_mut\(\)\.set\(p, value\);', st)
            if m and self.fields['storage'] == 'refcell':
                done = True
            m2 = re.fullmatch(r'\(\*(\w+)\)\.set\(p, value\);', st)
            if m2 and alias and m2.group(1) == alias:
                done = True
            if done:
                lines.append(f'{indent}(Storage.set k e self.storage p value).map (fun s => {{ self with storage := s }})')
                continue
            self.fail('statement outside the recognised grammar: ' + st)
        if not done:
            self.fail('set does not store')
        return lines


def parse_grid_impl(repo, fname, lean):
    src = strip_comments((repo / (G + fname)).read_text())
    m = re.search(r'pub struct Grid<S, T>\s*where[^{]*\{([^}]*)\}', src)
    if not m:
        raise Unsupported(fname + ': struct Grid<S, T> not found')
    fields = {}
    for item in [norm(q) for q in m.group(1).split(',') if q.strip()]:
        mi = re.fullmatch(r'(\w+): (.+)', item)
        if not mi:
            raise Unsupported(fname + ': field ' + item)
        n, ty = mi.group(1), mi.group(2)
        if n == 'storage' and ty == 'RefCell<S>':
            fields[n] = 'refcell'
        elif n == 'storage' and ty == 'S':
            fields[n] = 'plain'
        elif ty == 'AtomicBool':
            fields[n] = 'flag'
        elif ty == 'std::marker::PhantomData<T>':
            fields[n] = 'marker'
        else:
            raise Unsupported(f'{fname}: field {n}: {ty}')
    if 'storage' not in fields:
        raise Unsupported(fname + ': no storage field')
    flags = [n for n, t in fields.items() if t == 'flag']
    # new
    sig, body = find_fn(src, 'new')
    if norm(sig) != 'fn new(storage: S) -> Self':
        raise Unsupported(fname + ': new signature ' + sig)
    mb = re.fullmatch(r'Self \{(.*)\}', norm(body))
    if not mb:
        raise Unsupported(fname + ': new body')
    init = {}
    for item in [q.strip() for q in mb.group(1).split(',') if q.strip()]:
        mi = re.fullmatch(r'(\w+)(?:: (.+))?', item)
        if not mi or mi.group(1) not in fields:
            raise Unsupported(fname + ': new initialiser ' + item)
        n, v = mi.group(1), mi.group(2) or mi.group(1)
        t = fields[n]
        if t == 'refcell' and v == 'RefCell::new(storage)' or t == 'plain' and v == 'storage':
            init[n] = 'storage'
        elif t == 'flag' and re.fullmatch(r'AtomicBool::new\((true|false)\)', v):
            init[n] = v[len('AtomicBool::new('):-1]
        elif t == 'marker' and v == 'std::marker::PhantomData':
            continue
        else:
            raise Unsupported(f'{fname}: new initialises {n} with {v}')
    if set(init) != {'storage'} | set(flags):
        raise Unsupported(fname + ': new does not initialise every field')
    # the flag is written nowhere else: every other occurrence must be the `.load(` in get
    for fl in flags:
        occ = len(re.findall(r'\b' + fl + r'\b', src))
        loads = len(re.findall(r'self\.' + fl + r'\.load\(', src))
        if occ != 2 + loads:
            raise Unsupported(f'{fname}: field {fl} is used other than by struct, new and load')
    out = [f'/-- `Grid<S, T>` of {fname}' + (' (`RefCell` as a plain cell: calls are sequential)' if fields['storage'] == 'refcell' else '') + ' -/',
           f'structure {lean} where', '  storage : Cells'] + [f'  {fl} : Bool' for fl in flags] + ['']
    out.append(f'def {lean}.new (storage : Cells) : {lean} := {{ ' +
               ', '.join(['storage := storage'] + [f'{fl} := {init[fl]}' for fl in flags]) + ' }')
    tr = GridTr(lean, fields, fname)
    sig, body = find_fn(src, 'get')
    if norm(sig) != 'fn get(&self, p: PointIndex) -> T':
        raise Unsupported(fname + ': get signature ' + sig)
    out += ['/-- `none` = panic (index out of bounds) -/',
            f'def {lean}.get (k : Kind) (e : Ext) (self : {lean}) (p : Pt) : Option Int :='] + tr.get_block(norm(body), '  ')
    sig, body = find_fn(src, 'set')
    if norm(sig) != 'fn set(&self, p: PointIndex, value: T)':
        raise Unsupported(fname + ': set signature ' + sig)
    out += ['/-- `none` = panic (index out of bounds), nothing stored -/',
            f'def {lean}.set (k : Kind) (e : Ext) (self : {lean}) (p : Pt) (value : Int) : Option {lean} :='] + tr.set_block(norm(body), '  ')
    out.append('')
    return out


PRELUDE = '''/-! ### assumed semantics of nested Rust arrays (fixed text, not derived from the source)
A storage is a function from address lists (outermost index first) to values. `a[i₁][i₂]…` panics unless every
index is below the length of its level (`inb`); a store changes exactly the addressed cell. -/
abbrev Cells := List Nat → Int

def defaultCells : Cells := fun _ => 0

def inb : (addr lens : List Nat) → Bool
  | [], [] => true
  | i :: is, n :: ns => decide (i < n) && inb is ns
  | _, _ => false

def readAt (lens : List Nat) (s : Cells) (addr : List Nat) : Option Int :=
  if inb addr lens then some (s addr) else none

def writeAt (lens : List Nat) (s : Cells) (addr : List Nat) (v : Int) : Option Cells :=
  if inb addr lens then some (fun a => if a = addr then v else s a) else none
'''


def gen_grid(repo):
    ctors = parse_point_ctors(repo)
    storages = {k: parse_storage(repo, k) for k in (1, 2, 3, 4)}
    variants = parse_array_grid(repo)
    out = ['-- GENERATED by /verif/tools/rs2lean.py grid from /repo — do not edit, regenerated on every check run',
           'namespace Gen.Grid', '']
    out += point_lean(ctors, '')
    out += [PRELUDE]
    out += ['/-- the const parameters of `ArrayGrid<T, W, H, D, C>` -/',
            'structure Ext where', '  W : Nat', '  H : Nat', '  D : Nat', '  C : Nat', 'deriving DecidableEq, Repr', '',
            '/-- the variants `ArrayGrid1D … ArrayGrid4D` -/',
            'inductive Kind where', '  | k1 | k2 | k3 | k4', 'deriving DecidableEq, Repr', '']
    out += ['/-- mod.rs: the array type each variant holds, as the list of its lengths, outermost first:']
    out += [f'    `{variants[k][0]}`: `{variants[k][2]}`' for k in (1, 2, 3, 4)] + ['-/']
    out += ['def nest : Kind → Ext → List Nat']
    out += [f'  | .k{k}, e => [{", ".join("e." + c for c in variants[k][1])}]' for k in (1, 2, 3, 4)] + ['']
    for which, pos, doc in (('getAddr', 1, 'get: `&self[…]…`'), ('setAddr', 2, 'set: `self[…]… = elem`')):
        out += [f'/-- storage_array_*.rs {doc}: the index list, outermost first -/', f'def {which} : Kind → Pt → List Nat']
        out += [f'  | .k{k}, p => [{", ".join("p." + c for c in storages[k][pos])}]' for k in (1, 2, 3, 4)] + ['']
    out += ['/-- `Storage::get` of the storage a variant holds; `none` = panic -/',
            'def Storage.get (k : Kind) (e : Ext) (s : Cells) (p : Pt) : Option Int := readAt (nest k e) s (getAddr k p)',
            '/-- `Storage::set`; `none` = panic, nothing stored -/',
            'def Storage.set (k : Kind) (e : Ext) (s : Cells) (p : Pt) (v : Int) : Option Cells :=',
            '  writeAt (nest k e) s (setAddr k p) v', '']
    out += parse_grid_impl(repo, 'grid_safe.rs', 'SafeGrid')
    out += parse_grid_impl(repo, 'grid_unsafe.rs', 'UnsafeGrid')
    for lean, build in (('SafeGrid', 'without'), ('UnsafeGrid', 'with')):
        ag = 'Array' + lean
        out += [f'/-- `ArrayGrid` in the build {build} feature `unsafe` (grid.rs re-exports {"grid_safe" if lean == "SafeGrid" else "grid_unsafe"}::Grid):',
                '    `new` stores an all-default array in the chosen variant, `get`/`set` dispatch to that variant\'s grid -/',
                f'structure {ag} where', '  kind : Kind', f'  grid : {lean}', '',
                f'def {ag}.new (k : Kind) : {ag} := {{ kind := k, grid := {lean}.new defaultCells }}',
                f'def {ag}.get (e : Ext) (self : {ag}) (p : Pt) : Option Int := {lean}.get self.kind e self.grid p',
                f'def {ag}.set (e : Ext) (self : {ag}) (p : Pt) (value : Int) : Option {ag} :=',
                f'  ({lean}.set self.kind e self.grid p value).map (fun g => {{ self with grid := g }})', '']
    out += ['end Gen.Grid', '']
    return '\n'.join(out)


def install(register):
    def guarded(repo):
        # the generator only returns text (rs2lean.py writes it, whole, when it changed); any unexpected exception on
        # unforeseen input is a rejection of the source as well, never a crash of the translator run
        try:
            return gen_grid(repo)
        except Unsupported:
            raise
        except Exception as ex:      # noqa: BLE001
            raise Unsupported(f'grid: internal {type(ex).__name__}: {ex}')
    register('grid', 'GridAddr.lean')(guarded)
