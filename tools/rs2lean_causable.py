"""rs2lean generator `causable` (C11, C02): singleton / collection causaloids and their aggregates -> Gen/Causable.lean.

Sources read (all from the *current* tree):
    deep_causality/src/types/alias_types/mod.rs                              type aliases (fn types, ArcRWLock, …)
    deep_causality/src/types/reasoning_types/causaloid/causal_type.rs         enum CausalType
    deep_causality/src/types/reasoning_types/causaloid/{mod,causable,getters,identifiable}.rs
                                                                              struct Causaloid, the constructors, impl Causable
    deep_causality/src/protocols/causable/mod.rs                              trait Causable (required), CausableReasoning (defaults)
    deep_causality/src/types/reasoning_types/causaloid_graph/{mod,causable_graph}.rs
                                                                              all_active / number_active / percent_active / size
    deep_causality/src/extensions/causable/mod.rs                             only to refuse an override of a default method

What is emitted: `inductive CausalType`, `structure Causaloid` (field for field; strings / PhantomData dropped) and one Lean
definition per Rust function, *one level deep*: the members of a collection / the nodes of a graph have the abstract type `ι`
and answer through a dictionary `M : CausableDict ι δ` (the required methods of `trait Causable` — the recursive calls), the
graph a causaloid wraps has the abstract type `γ` and answers through `G : GraphOps γ ι δ` (`get_all_nodes`, `size`, `is_empty`
of the ultragraph inside, and `reason_all_causes`, which stays abstract here: graph reasoning is another generator's business).
`Props/C11Gen.lean` proves that the hand model's mutually recursive functions satisfy the generated equations.
    CausableReasoning.{get_all_causes_true get_all_active_causes get_all_inactive_causes number_active percent_active
                       reason_all_causes}
    CausaloidGraph.{all_active number_active percent_active size}
    Causaloid.{new new_with_context from_causal_collection[_with_context] from_causal_graph[_with_context]
               is_active is_singleton verify_single_cause verify_all_causes}
Vocabulary (that of `Model/Causaloid.lean`): observations are opaque (`δ`), contexts opaque (`χ`); a causal function is a Lean
function into `Dfs.V` (`t`/`f` = `Ok(true)`/`Ok(false)`, `e` = `Err`); `Arc<RwLock<bool>>` is a cell id (`Nat`), reading it is
`s cell` for the activation `s : Cells` the function runs in (after the writes logged so far: `applyLog s log`), writing `b`
appends the event `(cell, V.t | V.f)` to the log `List Event`; `Arc::new(RwLock::new(b))` in a constructor is the fresh cell
handed in as parameter `cell`, the constructor answers `(record, b)`; `Result<bool, _>` functions answer
`Option V × List Event` (`none` = a panic: `expect`/`unwrap` on `None`/`Err`, index out of range), `bool` functions of
`impl Causable for Causaloid` that can panic answer `Option Bool`; counts `as NumericalValue`, quotients and `* 100` are exact
rationals, `0f64` is `(0 : Rat)`; `&Vec<Causaloid>` is `List ι` seen through `Coll.ofVec` (`len`/`is_empty`/`get_all_items` of
the `make_*!` macros); `usize` arithmetic without overflow; error payloads are dropped (checked to be effect-free).

Method: the bodies are parsed (rsblock's parser + refutable patterns, `if let`, `let … else`, `match` with parsed patterns and
or-patterns, closures, `return`/`break`/`continue`, compound assignment, float literals) and **symbolically executed** in
continuation-passing style. Locals are substituted. A value that decides control flow (`Option`, `Result`, `bool`, `CausalType`)
*forks* the execution on the Lean term it stands for, and what is learnt about a term is remembered along the path — so
`match` / `if let` / `let else` / `?` / `is_some()`+`unwrap()` / `ok_or(..)?` / `matches!` / early return vs `else` / renamed
locals, fields, closure parameters / reordered independent `let`s / extracted private helpers (inlined) give the same decision
tree. Loops: `for x in xs { [let…] if c { return <bool> } }` followed by a bool is `List.all` / `List.any` (literals as parsed);
a loop that only updates `let mut` locals is a `List.foldl`; any other loop (effects, `?`, early exits) becomes an auxiliary
recursive definition `<fn>.loopN` over the list (`[]` = the rest of the function, `e :: rest` = one pass).
Nothing is normalised: operand order, which branch answers what, what is written to which cell and when stay as written.

Fail closed (`Unsupported`): anything outside the above — `while`/`loop`, nested effectful loops, unsigned `-`, `#[cfg]`,
`unsafe`, `macro_rules!`, a second lock of a cell while a guard is alive, unknown methods / types / macros, an overridden default
method, a missing / duplicated / re-typed function or field, a panic in a function that is rendered total.
"""
import re
from rsexpr import Unsupported, strip_comments
from rsblock import BlockParser, fn_items, split_top

SRC = 'deep_causality/src/'
DIR_C = SRC + 'types/reasoning_types/causaloid/'
F_MOD, F_CAUSABLE, F_GETTERS, F_IDENT, F_CTYPE = (DIR_C + 'mod.rs', DIR_C + 'causable.rs', DIR_C + 'getters.rs',
                                                  DIR_C + 'identifiable.rs', DIR_C + 'causal_type.rs')
F_TRAIT = SRC + 'protocols/causable/mod.rs'
F_GRAPH = SRC + 'types/reasoning_types/causaloid_graph/causable_graph.rs'
F_GRAPH_MOD = SRC + 'types/reasoning_types/causaloid_graph/mod.rs'
F_ALIAS = SRC + 'types/alias_types/mod.rs'
F_EXT = SRC + 'extensions/causable/mod.rs'

ROOTS = {
    'CausableReasoning': ['get_all_causes_true', 'get_all_active_causes', 'get_all_inactive_causes', 'number_active',
                          'percent_active', 'reason_all_causes'],
    'CausaloidGraph': ['all_active', 'number_active', 'size', 'percent_active'],
    'Causaloid': ['new', 'new_with_context', 'from_causal_collection', 'from_causal_collection_with_context',
                  'from_causal_graph', 'from_causal_graph_with_context', 'is_active', 'is_singleton', 'verify_single_cause',
                  'verify_all_causes'],
}
# result shape of the functions whose Lean type must not depend on how the body is written
OPT_SHAPE = {('Causaloid', 'is_active')}

# ----------------------------------------------------------------------------------------------
# tokens: rsexpr's + lifetimes, chars, floats, compound assignment
# ----------------------------------------------------------------------------------------------
TOKEN = re.compile(r"""
    (?P<ws>\s+)
  | (?P<chr>'(?:[^'\\]|\\.)')
  | (?P<life>'[A-Za-z_][A-Za-z_0-9]*)
  | (?P<flt>\d[\d_]*\.\d[\d_]*(?:_?f(?:32|64))?|\d[\d_]*_?f(?:32|64))
  | (?P<num>\d[\d_]*(?:(?:u|i)(?:8|16|32|64|128|size))?)
  | (?P<id>[A-Za-z_][A-Za-z_0-9]*)
  | (?P<op><<=|>>=|<<|>>|==|!=|<=|>=|&&|\|\||::|->|=>|\+=|-=|\*=|/=|%=|\.\.=|\.\.|[-+*/%&|^!<>=.,;:(){}\[\]\#?@])
""", re.X)


def tokenize(s):
    out, i = [], 0
    while i < len(s):
        m = TOKEN.match(s, i)
        if not m:
            raise Unsupported('cannot tokenise at: ' + s[i:i + 30])
        i = m.end()
        if m.lastgroup != 'ws':
            out.append((m.lastgroup, m.group(m.lastgroup)))
    return out


def strip_strings(src):
    return re.sub(r'"(?:[^"\\]|\\.)*"', '__str', src)


# ----------------------------------------------------------------------------------------------
# parser: rsblock + refutable patterns, if-let, let-else, parsed match arms, closures, jumps as expressions
# AST additions: ('flt', text) ('iflet', pat, expr, block, else|None) ('match', scrut, [(pat, expr)]) ('closure', [pat], expr)
#                ('return_expr', expr|None) ('jump', 'break'|'continue')
#                stmt ('let', pat, ty, expr, else_block|None)  ('assign_op', op, place, expr)
# pat ::= ('wild',) | ('bind', name[, True]) | ('tuple', [pat]) | ('ctor', 'Some'|'Ok'|'Err', pat) | ('none',) | ('lit', bool)
#       | ('enum', variant) | ('or', [pat])
# ----------------------------------------------------------------------------------------------
class CParser(BlockParser):
    def atom(self):
        kind, v = self.peek()
        if kind == 'flt':
            self.next()
            return ('flt', re.sub(r'_?f(32|64)$', '', v).replace('_', ''))
        if kind in ('chr', 'life'):
            raise Unsupported(f'literal / lifetime {v} in expression position')
        if kind == 'id' and v == 'move' and self.peek(1)[1] in ('|', '||'):
            self.next()
            kind, v = self.peek()
        if kind == 'op' and v in ('|', '||'):
            return self.closure()
        if kind == 'id' and v in ('break', 'continue'):
            self.next()
            if self.peek()[1] not in (';', '}', ','):
                raise Unsupported(f'`{v}` with a label or a value')
            return ('jump', v)
        if kind == 'id' and v == 'return':
            self.next()
            if self.peek()[1] in (';', '}', ',', ')'):
                return ('return_expr', None)
            return ('return_expr', self.expr())
        return super().atom()

    def closure(self):
        params = []
        if self.next()[1] == '|':
            while self.peek()[1] != '|':
                params.append(self.pattern1())
                if self.peek()[1] == ':':
                    self.next()
                    self.type_text((',', '|'))
                if self.peek()[1] == ',':
                    self.next()
                elif self.peek()[1] != '|':
                    raise Unsupported('closure parameters: unexpected token ' + self.peek()[1])
            self.next()
        if self.peek()[1] == '->':
            raise Unsupported('closure with return type')
        saved, self.no_struct = self.no_struct, 0
        body = self.expr()
        self.no_struct = saved
        return ('closure', params, body)

    def pattern(self):
        p = self.pattern1()
        if self.peek()[1] == '|':
            alts = [p]
            while self.peek()[1] == '|':
                self.next()
                alts.append(self.pattern1())
            return ('or', alts)
        return p

    def pattern1(self):
        kind, v = self.next()
        if v in ('&', '&&'):
            if self.peek()[1] == 'mut':
                self.next()
            return self.pattern1()
        if kind == 'id' and v == 'ref':
            return self.pattern1()
        if kind == 'id' and v == 'mut':
            p = self.pattern1()
            return ('bind', p[1], True) if p[0] == 'bind' else p
        if v == '_':
            return ('wild',)
        if v == '(':
            items = []
            while self.peek()[1] != ')':
                items.append(self.pattern())
                if self.peek()[1] == ',':
                    self.next()
                elif self.peek()[1] != ')':
                    raise Unsupported('pattern: unexpected token ' + self.peek()[1])
            self.next()
            return ('tuple', items) if len(items) != 1 else items[0]
        if kind == 'id':
            if v in ('true', 'false'):
                return ('lit', v == 'true')
            path = [v]
            while self.peek()[1] == '::':
                self.next()
                k2, v2 = self.next()
                if k2 != 'id':
                    raise Unsupported('pattern path')
                path.append(v2)
            name = path[-1]
            if self.peek()[1] == '(':
                if name not in ('Some', 'Ok', 'Err'):
                    raise Unsupported('pattern constructor ' + name)
                self.next()
                inner = self.pattern()
                if self.peek()[1] == ',':
                    self.next()
                self.expect(')')
                return ('ctor', name, inner)
            if self.peek()[1] in ('{', '@', '..', '..='):
                raise Unsupported('struct / binding / range pattern')
            if name == 'None':
                return ('none',)
            if len(path) == 1 and not name[:1].isupper():
                return ('bind', name)
            if len(path) >= 2 and path[-2] == 'CausalType' or len(path) == 1:
                return ('enum', name)
            raise Unsupported('pattern ' + '::'.join(path))
        raise Unsupported('pattern: unexpected token ' + v)

    def if_expr(self):
        self.expect('if')
        if self.peek()[1] == 'let':
            self.next()
            pat = self.pattern()
            self.expect('=')
            scrut = self.head_expr()
            if self.peek()[1] in ('&&', '||'):
                raise Unsupported('let chain')
            then = self.block()
            els = None
            if self.peek()[1] == 'else':
                self.next()
                els = self.if_expr() if self.peek()[1] == 'if' else self.block()
            return ('iflet', pat, scrut, then, els)
        cond = self.head_expr()
        then = self.block()
        els = None
        if self.peek()[1] == 'else':
            self.next()
            els = self.if_expr() if self.peek()[1] == 'if' else self.block()
        return ('if', cond, then, els)

    def match_expr(self):
        self.expect('match')
        scrut = self.head_expr()
        self.expect('{')
        arms = []
        while self.peek()[1] != '}':
            if self.peek()[1] == '|':
                self.next()
            pat = self.pattern()
            if self.peek()[1] == 'if':
                raise Unsupported('match guard')
            self.expect('=>')
            saved, self.no_struct = self.no_struct, 0
            body = self.expr()
            self.no_struct = saved
            arms.append((pat, body))
            if self.peek()[1] == ',':
                self.next()
            elif self.peek()[1] != '}' and body[0] not in ('block', 'if', 'iflet', 'match'):
                raise Unsupported('match arm not terminated by `,`')
        self.expect('}')
        return ('match', scrut, arms)

    def block(self):
        self.expect('{')
        saved, self.no_struct = self.no_struct, 0
        stmts, tail = [], None
        while self.peek()[1] != '}':
            if tail is not None:
                raise Unsupported('expression without `;` in the middle of a block')
            if self.peek()[1] == '#':
                raise Unsupported('attribute inside a function body')
            kind, v = self.peek()
            if kind == 'eof':
                raise Unsupported('unterminated block')
            if v == ';':
                self.next()
            elif v == 'let':
                self.next()
                pat = self.pattern()
                ty = None
                if self.peek()[1] == ':':
                    self.next()
                    ty = self.type_text(('=', ';'))
                if self.peek()[1] != '=':
                    raise Unsupported('let without initialiser')
                self.next()
                rhs = self.expr()
                els = None
                if self.peek()[1] == 'else':
                    self.next()
                    els = self.block()
                self.expect(';')
                stmts.append(('let', pat, ty, rhs, els))
            elif v == 'for':
                self.next()
                pat = self.pattern()
                self.expect('in')
                it = self.head_expr()
                stmts.append(('for', pat, it, self.block()))
            elif v == 'return':
                self.next()
                e = None if self.peek()[1] in (';', '}') else self.expr()
                if self.peek()[1] == ';':
                    self.next()
                stmts.append(('return', e))
            elif kind == 'id' and v in ('while', 'loop', 'fn', 'struct', 'use', 'const', 'static', 'impl',
                                        'enum', 'type', 'trait', 'mod', 'unsafe', 'async', 'macro_rules'):
                raise Unsupported(f'`{v}` statement')
            elif v in ('if', 'match', '{'):
                e = self.atom()
                if self.peek()[1] == '}':
                    tail = e
                else:
                    if self.peek()[1] == ';':
                        self.next()
                    elif self.peek()[1] in ('.', '?'):
                        raise Unsupported('method call on a block-like expression at statement position')
                    stmts.append(('expr', e))
            else:
                e = self.expr()
                nxt = self.peek()[1]
                if nxt == '=':
                    self.next()
                    rhs = self.expr()
                    if self.peek()[1] == ';':
                        self.next()
                    elif self.peek()[1] != '}':
                        raise Unsupported('assignment not terminated')
                    stmts.append(('assign', e, rhs))
                elif nxt in ('+=', '-=', '*=', '/='):
                    self.next()
                    rhs = self.expr()
                    if self.peek()[1] == ';':
                        self.next()
                    elif self.peek()[1] != '}':
                        raise Unsupported('assignment not terminated')
                    stmts.append(('assign', e, ('bin', nxt[0], e, rhs)))
                elif nxt in ('<<=', '>>=', '%='):
                    raise Unsupported('compound assignment ' + nxt)
                elif nxt == ';':
                    self.next()
                    stmts.append(('expr', e))
                elif nxt == '}':
                    tail = e
                else:
                    raise Unsupported('unexpected token in statement: ' + nxt)
        self.expect('}')
        self.no_struct = saved
        return ('block', stmts, tail)


def parse_fn_body(text):
    p = CParser(tokenize('{' + text + '}'))
    b = p.block()
    if not p.at_end():
        raise Unsupported('trailing tokens after function body')
    return b


def expr_to_pattern(e):
    """the second argument of `matches!` was parsed as an expression"""
    k = e[0]
    if k == 'paren':
        return expr_to_pattern(e[1])
    if k == 'bin' and e[1] == '|':
        l, r = expr_to_pattern(e[2]), expr_to_pattern(e[3])
        return ('or', (l[1] if l[0] == 'or' else [l]) + (r[1] if r[0] == 'or' else [r]))
    if k == 'path':
        p = e[1]
        if p == ['_']:
            return ('wild',)
        if p[-1] == 'None':
            return ('none',)
        if p[-1] in ('true', 'false') and len(p) == 1:
            return ('lit', p[-1] == 'true')
        if len(p) == 1 and not p[0][:1].isupper():
            return ('wild',) if p[0].startswith('_') else ('bind', p[0])
        return ('enum', p[-1])
    if k == 'call' and e[1][0] == 'path' and e[1][1][-1] in ('Some', 'Ok', 'Err') and len(e[2]) == 1:
        return ('ctor', e[1][1][-1], expr_to_pattern(e[2][0]))
    if k == 'ref':
        return expr_to_pattern(e[1])
    raise Unsupported('matches!: pattern outside the recognised grammar')


# ----------------------------------------------------------------------------------------------
# items
# ----------------------------------------------------------------------------------------------
def _match_brace(src, i):
    depth, j = 1, i + 1
    while depth:
        if j >= len(src):
            raise Unsupported('unbalanced braces')
        depth += (src[j] == '{') - (src[j] == '}')
        j += 1
    return j


def _skip_generics(s, i):
    while i < len(s) and s[i].isspace():
        i += 1
    if i < len(s) and s[i] == '<':
        depth = 0
        while True:
            depth += (s[i] == '<') - (s[i] == '>' and s[i - 1] != '-')
            i += 1
            if depth == 0:
                break
    return i


def impl_blocks(src):
    """[(trait|None, type name, body start, body end)] of every `impl` item"""
    out = []
    for m in re.finditer(r'(?m)^[ \t]*(?:unsafe\s+)?impl\b', src):
        b = src.index('{', m.end())
        head = src[m.end():b]
        i = _skip_generics(head, 0)
        m1 = re.match(r'\s*([A-Za-z_][\w:]*)', head[i:])
        if not m1:
            raise Unsupported('impl header: ' + ' '.join(head.split())[:80])
        first = m1.group(1).split('::')[-1]
        j = _skip_generics(head, i + m1.end())
        m2 = re.match(r'\s*for\s+(\[?\s*[A-Za-z_][\w:]*)', head[j:])
        trait, ty = (first, m2.group(1).replace('[', '').strip().split('::')[-1]) if m2 else (None, first)
        out.append((trait, ty, b, _match_brace(src, b)))
    return out


def struct_fields(src, name):
    ms = list(re.finditer(r'\bstruct\s+' + name + r'\b', src))
    if len(ms) != 1:
        raise Unsupported(f'struct {name}: {len(ms)} definitions')
    b = ms[0].end()
    depth = 0
    while src[b] not in '{;' or depth:
        depth += (src[b] in '(<') - (src[b] == ')' or (src[b] == '>' and src[b - 1] != '-'))
        b += 1
    if src[b] != '{':
        raise Unsupported(f'struct {name}: not a struct with named fields')
    body = src[b + 1:_match_brace(src, b) - 1]
    fields = []
    for part in split_top(body):
        part = re.sub(r'#\s*\[[^\]]*\]', '', part).strip()
        if not part:
            continue
        fm = re.match(r'(?:pub(?:\([^)]*\))?\s+)?([A-Za-z_]\w*)\s*:\s*(.+)$', part, flags=re.S)
        if not fm:
            raise Unsupported(f'struct {name}: field `{part[:40]}`')
        fields.append((fm.group(1), ' '.join(fm.group(2).split())))
    return fields


def type_aliases(src):
    out = {}
    for m in re.finditer(r'\btype\s+(\w+)\s*(?:<([^=]*)>)?\s*=\s*([^;]+);', src):
        ps = [x.strip() for x in (m.group(2) or '').split(',') if x.strip() and not x.strip().startswith("'")]
        out[m.group(1)] = (ps, ' '.join(m.group(3).split()))
    return out


def read_src(repo, rel):
    s = strip_strings(strip_comments((repo / rel).read_text()))
    for bad, why in ((r'#\s*!?\s*\[\s*cfg', '#[cfg]'), (r'\bmacro_rules\s*!', 'macro_rules!'), (r'\bunsafe\b', 'unsafe'),
                     (r'\binclude\s*!', 'include!')):
        if re.search(bad, s):
            raise Unsupported(f'{rel}: {why} is outside the recognised grammar')
    return s


# ----------------------------------------------------------------------------------------------
# kinds (types of the generated language)
#   scalars: bool nat rat data ctx cellref ctype fn1 fn2 member graph imap unit str errval phantom self ugraph
#   ('opt', k) ('res', k) ('list', k) ('tuple', (k, …))
# ----------------------------------------------------------------------------------------------
LTYPE = {'bool': 'Bool', 'nat': 'Nat', 'rat': 'Rat', 'data': 'δ', 'ctx': 'χ', 'cellref': 'Nat', 'ctype': 'CausalType',
         'fn1': '(δ → V)', 'fn2': '(δ → χ → V)', 'member': 'ι', 'graph': 'γ', 'imap': '(List (Nat × Nat))', 'V': 'V'}


def ltype(k):
    if isinstance(k, str):
        if k in LTYPE:
            return LTYPE[k]
        raise Unsupported(f'no Lean type for kind {k}')
    if k[0] == 'opt':
        return f'(Option {ltype(k[1])})'
    if k[0] == 'list':
        return f'(List {ltype(k[1])})'
    if k[0] == 'tuple':
        return '(' + ' × '.join(ltype(x) for x in k[1]) + ')'
    raise Unsupported(f'no Lean type for kind {k}')


class Types:
    def __init__(self, aliases, generic_member=None):
        self.aliases = aliases
        self.generic_member = generic_member     # the type parameter that stands for a member (`T` in the traits)

    def kind(self, t, depth=0):
        if depth > 8:
            raise Unsupported('type alias cycle')
        t = re.sub(r"'\w+\b\s*,?\s*", lambda m: '' if ',' in m.group(0) else '', t)   # lifetimes (also as generic arguments)
        t = re.sub(r'<\s*,', '<', t)
        t = re.sub(r'\b(mut|dyn)\b\s*', '', t).strip()
        while t.startswith('&'):
            t = t[1:].strip()
        if t == '()':
            return 'unit'
        if t.startswith('('):
            return ('tuple', tuple(self.kind(x, depth) for x in split_top(t[1:-1]) if x))
        if t.startswith('['):
            if not t.endswith(']') or ';' in t:
                raise Unsupported('type ' + t)
            return ('list', self.kind(t[1:-1], depth))
        if t.startswith('fn'):
            m = re.fullmatch(r'fn\s*\((.*)\)\s*->\s*(.+)', t, flags=re.S)
            if not m:
                raise Unsupported('fn type ' + t)
            args = [self.kind(a, depth) for a in split_top(m.group(1)) if a]
            ret = self.kind(m.group(2), depth)
            if ret != ('res', 'bool'):
                raise Unsupported('fn type ' + t)
            if args == ['data']:
                return 'fn1'
            if args == ['data', 'ctx']:
                return 'fn2'
            raise Unsupported('fn type ' + t)
        m = re.match(r'([A-Za-z_][\w:]*)\s*(?:<(.*)>)?$', t, flags=re.S)
        if not m:
            raise Unsupported('type ' + t)
        name, args = m.group(1).split('::')[-1], split_top(m.group(2)) if m.group(2) else []
        args = [a for a in args if a.strip() and not re.fullmatch(r"'\w+", a.strip())]
        if name == self.generic_member and not args:
            return 'member'
        if name in self.aliases:
            ps, rhs = self.aliases[name]
            if len(ps) == len(args):
                for pn, a in zip(ps, args):
                    rhs = re.sub(r'\b' + pn + r'\b', lambda _m, a=a: a, rhs)
            return self.kind(rhs, depth + 1)
        if name in ('usize', 'u64', 'u32'):
            return 'nat'
        if name == 'bool':
            return 'bool'
        if name == 'f64':
            return 'data'
        if name in ('str', 'String'):
            return 'str'
        if name == 'Context':
            return 'ctx'
        if name == 'Causaloid':
            return 'member'
        if name == 'CausalType':
            return 'ctype'
        if name == 'PhantomData':
            return 'phantom'
        if name == 'Self':
            return 'self'
        if name == 'CausaloidGraph':
            return 'graph'
        if name == 'UltraGraph':
            return 'ugraph'
        if name in ('CausalityError', 'CausalityGraphError'):
            return 'errval'
        if name == 'Vec' and len(args) == 1:
            return ('list', self.kind(args[0], depth))
        if name == 'HashMap' and len(args) >= 2:
            if self.kind(args[0], depth) != 'nat' or self.kind(args[1], depth) != 'nat':
                raise Unsupported('map type ' + t)
            return 'imap'
        if name in ('RwLock', 'Mutex') and len(args) == 1:
            if self.kind(args[0], depth) != 'bool':
                raise Unsupported('cell type ' + t)
            return 'cellref'
        if name in ('Arc', 'Rc', 'Box') and len(args) == 1:
            return self.kind(args[0], depth)
        if name == 'Result' and len(args) == 2:
            return ('res', self.kind(args[0], depth))
        if name == 'Option' and len(args) == 1:
            return ('opt', self.kind(args[0], depth))
        raise Unsupported('type ' + t)


def parse_params(it, where):
    has_self, params = False, []
    for i, p in enumerate(split_top(it['params'])):
        if not p:
            continue
        if re.fullmatch(r"&\s*(?:'\w+\s+)?(?:mut\s+)?self|(?:mut\s+)?self", p):
            if i != 0 or ('mut' in p and '&' in p):
                raise Unsupported(f'{where}: receiver `{p}`')
            has_self = True
            continue
        pm = re.match(r'(?:mut\s+)?([A-Za-z_]\w*)\s*:\s*(.+)$', p, flags=re.S)
        if not pm:
            raise Unsupported(f'{where}: parameter `{p}`')
        params.append((pm.group(1), pm.group(2)))
    return has_self, params


class Source:
    def __init__(self, repo):
        self.repo = repo
        txt = {f: read_src(repo, f) for f in (F_MOD, F_CAUSABLE, F_GETTERS, F_IDENT, F_CTYPE, F_TRAIT, F_GRAPH, F_GRAPH_MOD,
                                               F_ALIAS, F_EXT)}
        self.txt = txt
        aliases = type_aliases(txt[F_ALIAS])
        aliases.update(type_aliases(txt[F_MOD]))
        aliases.pop('CausalGraph', None)
        # `CausalGraph` names two things (mod.rs: CausaloidGraph<Causaloid<..>>; protocols: UltraGraph<T>): resolved per file
        mod_alias = type_aliases(txt[F_MOD]).get('CausalGraph')
        self.t_caus = Types(dict(aliases, **({'CausalGraph': mod_alias} if mod_alias else {})))
        self.t_trait = Types(dict(aliases), generic_member='T')
        self.t_graph = Types(dict(aliases, CausalGraph=(['T'], 'UltraGraph<T>')), generic_member='T')
        for al, want in (('NumericalValue', 'data'), ('IdentificationValue', 'nat'), ('CausalFn', 'fn1'),
                         ('ContextualCausalDataFn', 'fn2'), ('ArcRWLock<bool>', 'cellref')):
            if self.t_caus.kind(al) != want:
                raise Unsupported(f'{F_ALIAS}: alias {al} is not the expected {want}')
        # enum CausalType
        m = re.search(r'\benum\s+CausalType\s*\{([^}]*)\}', txt[F_CTYPE])
        if not m:
            raise Unsupported(f'{F_CTYPE}: enum CausalType not found')
        self.variants = [v.strip() for v in m.group(1).split(',') if v.strip()]
        if not self.variants or not all(re.fullmatch(r'[A-Z]\w*', v) for v in self.variants):
            raise Unsupported(f'{F_CTYPE}: enum CausalType has variants with data / discriminants')
        # struct Causaloid
        self.fields = []
        for f, ty in struct_fields(txt[F_MOD], 'Causaloid'):
            k = self.t_caus.kind(ty)
            if k == 'bool' or k == 'nat' or k == 'ctype' or k == 'cellref' or k in ('str', 'phantom') or \
                    k in (('opt', 'fn1'), ('opt', 'fn2'), ('opt', 'ctx'), ('opt', ('list', 'member')), ('opt', 'graph'),
                          'fn1', 'fn2', 'ctx', ('list', 'member'), 'graph'):
                self.fields.append((f, k))
            else:
                raise Unsupported(f'struct Causaloid: field {f} of unmodelled type {ty}')
        if [k for _, k in self.fields].count('cellref') != 1:
            raise Unsupported('struct Causaloid: expected exactly one Arc<RwLock<bool>> field')
        # struct CausaloidGraph: one field, the ultragraph
        gf = struct_fields(txt[F_GRAPH_MOD], 'CausaloidGraph')
        if len(gf) != 1 or self.t_graph.kind(gf[0][1]) != 'ugraph':
            raise Unsupported('struct CausaloidGraph: expected exactly one field, the UltraGraph')
        self.graph_field = gf[0][0]
        # functions
        self.fns = {'Causaloid': {}, 'CausableReasoning': {}, 'CausaloidGraph': {}}
        for f in (F_MOD, F_CAUSABLE, F_GETTERS, F_IDENT):
            self._impl_fns(f, 'Causaloid', (None, 'Causable', 'Identifiable'), 'Causaloid', self.t_caus)
        self._impl_fns(F_GRAPH, 'CausaloidGraph', ('CausableGraph',), 'CausaloidGraph', self.t_graph)
        self._impl_fns(F_GRAPH_MOD, 'CausaloidGraph', (None,), 'CausaloidGraph', self.t_graph)
        self._trait_fns()
        self._check_ext()

    def _impl_fns(self, f, ty, traits, unit, types):
        src = self.txt[f]
        blocks = impl_blocks(src)
        items = fn_items(src)
        for it in items:
            for other in items:
                if other is not it and other['start'] < it['start'] < other['end']:
                    raise Unsupported(f'{f}: nested fn {it["name"]}')
            owner = [(tr, t) for tr, t, b, e in blocks if b < it['start'] < e]
            if len(owner) > 1:
                raise Unsupported(f'{f}: nested impl')
            if not owner:
                raise Unsupported(f'{f}: free function {it["name"]} is outside the recognised grammar')
            tr, t = owner[0]
            if t != ty or tr not in traits:
                continue
            if it['name'] in self.fns[unit]:
                raise Unsupported(f'{f}: fn {it["name"]} defined twice for {ty}')
            if re.search(r'\b(async|const|extern)\s+$', src[max(0, it['start'] - 30):it['start']]):
                raise Unsupported(f'{f}: qualified fn {it["name"]}')
            try:
                has_self, params, bad = parse_params(it, f'{ty}::{it["name"]}') + (None,)
            except Unsupported as ex:      # only an error if the function is ever needed
                has_self, params, bad = False, [], str(ex)
            self.fns[unit][it['name']] = {'name': it['name'], 'self': has_self, 'params': params, 'ret': it['ret'],
                                          'body_text': it['body'], 'unit': unit, 'types': types, 'body': None,
                                          'sig': it['sig'], 'bad': bad}

    def _trait_block(self, src, name):
        ms = list(re.finditer(r'\btrait\s+' + name + r'\b', src))
        if len(ms) != 1:
            raise Unsupported(f'{F_TRAIT}: trait {name}: {len(ms)} definitions')
        b = src.index('{', ms[0].end())
        return src[b + 1:_match_brace(src, b) - 1]

    def _trait_fns(self):
        src = self.txt[F_TRAIT]
        # trait Causable: the dictionary's fields are its required methods; their signatures are part of the vocabulary
        blk = self._trait_block(src, 'Causable')
        if fn_items(blk):
            raise Unsupported(f'{F_TRAIT}: trait Causable has a default method')
        sigs = {}
        for m in re.finditer(r'\bfn\s+(\w+)\s*\(([^;{]*?)\)\s*(?:->\s*([^;{]+?))?\s*;', blk, flags=re.S):
            _, ps = parse_params({'params': ' '.join(m.group(2).split())}, 'Causable::' + m.group(1))
            sigs[m.group(1)] = ([self.t_trait.kind(t) for _, t in ps], self.t_trait.kind(m.group(3) or '()'))
        want = {'is_active': ([], 'bool'), 'is_singleton': ([], 'bool'),
                'verify_single_cause': (['data'], ('res', 'bool')),
                'verify_all_causes': ([('list', 'data'), ('opt', 'imap')], ('res', 'bool'))}
        for n, w in want.items():
            if sigs.get(n) != w:
                raise Unsupported(f'{F_TRAIT}: Causable::{n} has signature {sigs.get(n)}, expected {w}')
        # trait CausableReasoning
        blk = self._trait_block(src, 'CausableReasoning')
        req = {}
        for m in re.finditer(r'\bfn\s+(\w+)\s*\(([^;{]*?)\)\s*(?:->\s*([^;{]+?))?\s*;', blk, flags=re.S):
            req[m.group(1)] = (' '.join(m.group(2).split()), ' '.join((m.group(3) or '()').split()))
        want = {'len': ('&self', 'usize'), 'is_empty': ('&self', 'bool'), 'to_vec': ('&self', 'Vec<T>'),
                'get_all_items': ('&self', 'Vec<&T>')}
        if req != want:
            raise Unsupported(f'{F_TRAIT}: required methods of CausableReasoning are {req}')
        self.coll_required = set(req)
        for it in fn_items(blk):
            has_self, params = parse_params(it, 'CausableReasoning::' + it['name'])
            if it['name'] in self.fns['CausableReasoning']:
                raise Unsupported(f'{F_TRAIT}: fn {it["name"]} defined twice')
            self.fns['CausableReasoning'][it['name']] = {'name': it['name'], 'self': has_self, 'params': params,
                                                         'ret': it['ret'], 'body_text': it['body'],
                                                         'unit': 'CausableReasoning', 'types': self.t_trait, 'body': None,
                                                         'sig': it['sig'], 'bad': None}

    def other_sources(self):
        """(relative path, comment-free text) of every .rs file of the crate except the extension file"""
        import pathlib
        root = pathlib.Path(self.repo) / SRC
        for f in sorted(root.rglob('*.rs')):
            rel = SRC + str(f.relative_to(root))
            if rel != F_EXT:
                yield rel, strip_comments(f.read_text())

    def _check_ext(self):
        src = self.txt[F_EXT]
        defaults = set(self.fns['CausableReasoning'])
        seen_vec = False
        for tr, ty, b, e in impl_blocks(src):
            if tr != 'CausableReasoning':
                continue
            body = src[b + 1:e - 1]
            for it in fn_items(body):
                if it['name'] in defaults:
                    raise Unsupported(f'{F_EXT}: the impl for {ty} overrides the default method {it["name"]}')
            if ty == 'Vec':
                seen_vec = True
                macros = sorted(re.findall(r'\b(make_\w+)\s*!', body))
                if fn_items(body) or macros != ['make_get_all_items', 'make_is_empty', 'make_len', 'make_vec_to_vec']:
                    raise Unsupported(f'{F_EXT}: impl CausableReasoning for Vec is not the four make_*! macros')
        if not seen_vec:
            raise Unsupported(f'{F_EXT}: impl CausableReasoning for Vec not found')
        # an impl of the trait for another type (e.g. a fixed-size array `[T; N]`) in any other file of the crate would be
        # picked by method resolution before the extension impls — and could override the default methods translated here
        for f, text in self.other_sources():
            if re.search(r'\bimpl\b[^{;]*\bCausableReasoning\s*<[^{;]*\bfor\b', text):
                raise Unsupported(f'{f}: an impl of CausableReasoning outside {F_EXT}')

    def body(self, fn):
        if fn['bad']:
            raise Unsupported(fn['bad'])
        if fn['body'] is None:
            try:
                fn['body'] = parse_fn_body(fn['body_text'])
            except Unsupported as ex:
                raise Unsupported(f'{fn["unit"]}::{fn["name"]}: {ex}')
        return fn['body']


# ----------------------------------------------------------------------------------------------
# symbolic values
#   ('term', kind, lean text)      anything symbolic (also Option / list terms)
#   ('bool', b) ('not', v)         concrete bool / negation of a symbolic one
#   ('opt', 'none') ('opt', 'some', v)   ('res', 'ok', v) ('res', 'err')   ('resV', lean text : V)  a symbolic Result<bool, _>
#   ('enum', variant) ('tuple', [v]) ('unit',) ('str',) ('errval',) ('phantom',)
#   ('self', unit, lean text) ('ugraph', lean text of the owning γ) ('cellref', lean text) ('lockres', cell, mode)
#   ('guard', cell, mode) ('newcell', v) ('struct', {field: v}) ('closure', params, body) ('enumlist', lean text, elem kind)
# ----------------------------------------------------------------------------------------------
UNIT = ('unit',)
LEAN_KEYWORDS = {'at', 'from', 'end', 'in', 'do', 'then', 'else', 'if', 'let', 'have', 'show', 'fun', 'by', 'with', 'match', 'def',
                 'theorem', 'where', 'open', 'namespace', 'section', 'structure', 'instance', 'class', 'Type', 'Prop', 'Sort',
                 'return', 'for', 'mut', 'import', 'deriving', 'example', 'variable', 'universe', 'abbrev', 'inductive', 'using',
                 'calc', 'suffices', 'obtain', 'forall', 'exists', 'macro', 'syntax', 'some', 'none', 'true', 'false',
                 'M', 'G', 's', 'self', 'cell', 'lg', 'V', 'Event', 'Cells', 'Idx', 'applyLog', 'List', 'Option', 'Nat', 'Bool',
                 'Rat', 'Prod', 'decide', 'not', 'id', 'Unit', 'Coll', 'Causaloid', 'CausalType', 'CausableDict', 'GraphOps',
                 'CausableReasoning', 'CausaloidGraph'}
CANON = re.compile(r'(v|e|rest|acc|idx)\d+')
IDENT_METHODS = ('clone', 'to_owned', 'copied', 'cloned', 'as_ref', 'borrow', 'by_ref', 'as_deref', 'as_slice')
MAX_INLINE = 8
MAX_NODES = 6000


def lean_field(n):
    return f'«{n}»' if n in LEAN_KEYWORDS - {'M', 'G', 's', 'cell', 'lg', 'id'} or n in ('at', 'from') else n


def lean_name(n):
    return n + '_' if n in LEAN_KEYWORDS or CANON.fullmatch(n) else n


def T(kind, text):
    return ('term', kind, text)


def kind_of(v):
    t = v[0]
    if t == 'term':
        return v[1]
    if t in ('bool', 'not'):
        return 'bool'
    if t == 'enum':
        return 'ctype'
    if t == 'unit':
        return 'unit'
    if t == 'opt' and v[1] == 'some':
        return ('opt', kind_of(v[2]))
    if t == 'cellref':
        return 'cellref'
    raise Unsupported(f'the kind of the value {v[:2]} is not determined')


def flt_to_rat(text):
    ip, fp = text.split('.') if '.' in text else (text, '')
    fp = fp.rstrip('0')
    if not fp:
        return f'({int(ip)} : Rat)'
    return f'(({int(ip + fp)} : Rat) / {10 ** len(fp)})'


class St:
    __slots__ = ('env', 'muts', 'log', 'known', 'nbound', 'scope', 'kret', 'kloop', 'depth')

    def __init__(self):
        self.env = [{}]
        self.muts = set()           # (frame index, name)
        self.log = (None, ())       # (base variable | None, segments: ('ev', cell, V text) | ('seg', lean text))
        self.known = {}             # lean text -> what it is on this path
        self.nbound = 0
        self.scope = []             # (lean variable, lean type) bound by the enclosing matches, in order
        self.kret = None            # continuation of `return`
        self.kloop = None           # (continue / fall through, break) inside a loop body
        self.depth = 0              # inlining depth

    def copy(self):
        s = St()
        s.env = [dict(f) for f in self.env]
        s.muts, s.log, s.known = set(self.muts), self.log, dict(self.known)
        s.nbound, s.scope, s.kret, s.kloop, s.depth = self.nbound, list(self.scope), self.kret, self.kloop, self.depth
        return s

    def lookup(self, name):
        for f in reversed(self.env):
            if name in f:
                return f[name]
        return None

    def assign(self, name, v):
        for i in range(len(self.env) - 1, -1, -1):
            if name in self.env[i]:
                if (i, name) not in self.muts:
                    raise Unsupported(f'assignment to `{name}`, which is not `let mut`')
                self.env[i][name] = v
                return
        raise Unsupported(f'assignment to unknown `{name}`')


def render_log(log):
    base, segs = log
    parts, cur = ([base] if base else []), []
    for sg in segs:
        if sg[0] == 'ev':
            cur.append(f'({sg[1]}, {sg[2]})')
        else:
            if cur:
                parts.append('[' + ', '.join(cur) + ']')
                cur = []
            parts.append(sg[1])
    if cur:
        parts.append('[' + ', '.join(cur) + ']')
    if not parts:
        return '[]'
    return parts[0] if len(parts) == 1 else '(' + ' ++ '.join(parts) + ')'


def leaf(kind, v, st):
    return ('leaf', kind, v, st)


# ----------------------------------------------------------------------------------------------
# the symbolic executor (continuation-passing: `k(value, state) -> tree`)
# trees: ('leaf', 'ret'|'panic'|'next'|'val'|'call', value, state)  ('if', cond text, T, F)  ('match', scrutinee text, [(pat, tree)])
# ----------------------------------------------------------------------------------------------
def scan(node, tags):
    """does the AST contain a node with one of the tags (not looking into closures)"""
    if isinstance(node, tuple):
        if node and node[0] in tags:
            return True
        if node and node[0] == 'closure':
            return False
        return any(scan(x, tags) for x in node[1:])
    if isinstance(node, list):
        return any(scan(x, tags) for x in node)
    return False


def assigned_names(node, out):
    if isinstance(node, tuple):
        if node and node[0] == 'assign' and node[1][0] == 'path' and len(node[1][1]) == 1:
            out.append(node[1][1][0])
        for x in node[1:]:
            assigned_names(x, out)
    elif isinstance(node, list):
        for x in node:
            assigned_names(x, out)


class Exec:
    def __init__(self, gen, unit, fn, shape):
        self.gen, self.src, self.unit, self.fn, self.shape = gen, gen.src, unit, fn, shape
        self.aux = []
        self.nloops = 0
        self.loopdepth = 0
        self.nnodes = 0
        self.newcells = 0
        self.active = [(unit, fn['name'])]

    # ---- helpers -----------------------------------------------------------------------------
    def bad(self, msg):
        return Unsupported(f'{self.unit}::{self.fn["name"]}: {msg}')

    def tick(self):
        self.nnodes += 1
        if self.nnodes > MAX_NODES:
            raise self.bad('decision tree too large')

    def cells(self, st):
        if st.log == (None, ()):
            return 's'
        return f'(applyLog s {render_log(st.log)})'

    def hdr(self, unit, st):
        return f'M {self.cells(st)}' if unit == 'CausableReasoning' else f'M G {self.cells(st)}'

    def rv(self, v):
        t = v[0]
        if t == 'term':
            return v[2]
        if t == 'bool':
            return 'true' if v[1] else 'false'
        if t == 'not':
            return f'(!{self.rv(v[1])})'
        if t == 'opt':
            return 'none' if v[1] == 'none' else f'(some {self.rv(v[2])})'
        if t == 'enum':
            return f'CausalType.{v[1]}'
        if t == 'tuple':
            return '(' + ', '.join(self.rv(x) for x in v[1]) + ')'
        if t == 'unit':
            return '()'
        if t == 'cellref':
            return v[1]
        if t == 'self':
            return v[2]
        raise self.bad(f'a {t} value where a Lean term is needed')

    def var_name(self, name, st):
        """Lean name for a closure parameter / loop variable: never one that a substituted term may mention"""
        taken = {'M', 'G', 's', 'self', 'lg', 'cell'} | {lean_name(p) for p, _ in self.top_params} | {v for v, _ in st.scope}
        v = lean_name(name)
        while v in taken:
            v += '_'
        return v

    def fresh(self, st, kind, prefix='v'):
        """a new bound variable on this path -> (value, state')"""
        s = st.copy()
        s.nbound += 1
        var = f'{prefix}{s.nbound}'
        s.scope.append((var, ltype(kind)))
        return T(kind, var), s

    # ---- forks -------------------------------------------------------------------------------
    def fork_bool(self, v, st, kt, kf):
        if v[0] == 'bool':
            return kt(st) if v[1] else kf(st)
        if v[0] == 'not':
            return self.fork_bool(v[1], st, kf, kt)
        if v[0] != 'term' or v[1] != 'bool':
            raise self.bad(f'a bool was expected, got {v[0]}')
        text = v[2]
        if text in st.known:
            return kt(st) if st.known[text] else kf(st)
        self.tick()
        s1, s2 = st.copy(), st.copy()
        s1.known[text], s2.known[text] = True, False
        return ('if', text, kt(s1), kf(s2))

    def fork_opt(self, v, st, knone, ksome):
        if v[0] == 'opt':
            return knone(st) if v[1] == 'none' else ksome(v[2], st)
        if v[0] != 'term' or not (isinstance(v[1], tuple) and v[1][0] == 'opt'):
            raise self.bad(f'an Option was expected, got {v[:2]}')
        text, inner = v[2], v[1][1]
        if text in st.known:
            kn = st.known[text]
            return knone(st) if kn == 'none' else ksome(kn, st)
        self.tick()
        s1 = st.copy()
        s1.known[text] = 'none'
        val, s2 = self.fresh(st, inner)
        s2.known[text] = val
        return ('match', text, [('none', knone(s1)), (f'some {val[2]}', ksome(val, s2))])

    def fork_V(self, text, st, kt, kf, ke):
        if text in st.known:
            return {'t': kt, 'f': kf, 'e': ke}[st.known[text]](st)
        self.tick()
        ss = [st.copy() for _ in range(3)]
        for s, x in zip(ss, 'etf'):
            s.known[text] = x
        return ('match', text, [('V.e', ke(ss[0])), ('V.t', kt(ss[1])), ('V.f', kf(ss[2]))])

    def fork_ctype(self, v, st, kv):
        """kv(variant, state)"""
        if v[0] == 'enum':
            return kv(v[1], st)
        if v[0] != 'term' or v[1] != 'ctype':
            raise self.bad(f'a CausalType was expected, got {v[0]}')
        text = v[2]
        if text in st.known:
            return kv(st.known[text], st)
        self.tick()
        arms = []
        for x in self.src.variants:
            s = st.copy()
            s.known[text] = x
            arms.append((f'CausalType.{x}', kv(x, s)))
        return ('match', text, arms)

    def force_res(self, v, st, kok, kerr):
        if v[0] == 'res':
            return kerr(st) if v[1] == 'err' else kok(v[2], st)
        if v[0] == 'resV':
            return self.fork_V(v[1], st, lambda s: kok(('bool', True), s), lambda s: kok(('bool', False), s), kerr)
        raise self.bad(f'a Result was expected, got {v[0]}')

    def panic(self, st):
        return leaf('panic', None, st)

    def eff_call(self, text, st, k):
        """an effectful call answering `Option V × List Event`: its log is appended, a panic stops the path"""
        s = st.copy()
        s.log = (s.log[0], s.log[1] + (('seg', f'{text}.2'),))
        return self.fork_opt(T(('opt', 'V'), f'{text}.1'), s, self.panic, lambda v, s2: k(('resV', v[2]), s2))

    # ---- patterns ----------------------------------------------------------------------------
    def pmatch(self, pat, v, st, succ, fail):
        k = pat[0]
        if k == 'wild':
            return succ(st)
        if k == 'bind':
            s = st.copy()
            s.env[-1][pat[1]] = v
            s.muts.discard((len(s.env) - 1, pat[1]))
            if len(pat) > 2:
                s.muts.add((len(s.env) - 1, pat[1]))
            return succ(s)
        if k == 'or':
            def go(i, s):
                if i == len(pat[1]):
                    return fail(s)
                if scan(pat[1][i], ('bind',)):
                    raise self.bad('or-pattern with bindings')
                return self.pmatch(pat[1][i], v, s, succ, lambda s2: go(i + 1, s2))
            return go(0, st)
        if k == 'tuple':
            if v[0] == 'unit' and not pat[1]:
                return succ(st)
            if v[0] != 'tuple' or len(v[1]) != len(pat[1]):
                raise self.bad(f'tuple pattern against {v[0]}')

            def go(i, s):
                if i == len(pat[1]):
                    return succ(s)
                return self.pmatch(pat[1][i], v[1][i], s, lambda s2: go(i + 1, s2), fail)
            return go(0, st)
        if k == 'lit':
            return self.fork_bool(v, st, succ if pat[1] else fail, fail if pat[1] else succ)
        if k == 'none':
            return self.fork_opt(v, st, succ, lambda _, s: fail(s))
        if k == 'enum':
            if pat[1] not in self.src.variants:
                raise self.bad(f'pattern {pat[1]} is not a CausalType variant')
            return self.fork_ctype(v, st, lambda x, s: succ(s) if x == pat[1] else fail(s))
        if k == 'ctor':
            if pat[1] == 'Some':
                return self.fork_opt(v, st, fail, lambda x, s: self.pmatch(pat[2], x, s, succ, fail))
            if pat[1] == 'Ok':
                return self.force_res(v, st, lambda x, s: self.pmatch(pat[2], x, s, succ, fail), fail)
            return self.force_res(v, st, lambda x, s: fail(s), lambda s: self.pmatch(pat[2], ('errval',), s, succ, fail))
        raise self.bad('pattern ' + k)

    def bind(self, pat, v, st, k):
        def refutable(s):
            raise self.bad('refutable pattern where an irrefutable one is needed')
        return self.pmatch(pat, v, st, k, refutable)

    # ---- blocks and statements ---------------------------------------------------------------
    def block(self, blk, st, k):
        if blk[0] != 'block':
            return self.ev(blk, st, k)
        st = st.copy()
        st.env.append({})
        depth = len(st.env)
        stmts, tail = blk[1], blk[2]

        def end(v, s):
            s = s.copy()
            s.env = s.env[:depth - 1]
            s.muts = {m for m in s.muts if m[0] < depth - 1}
            return k(v, s)

        def run(i, s):
            if i == len(stmts):
                return end(UNIT, s) if tail is None else self.ev(tail, s, end)
            return self.stmt(stmts[i], s, lambda s2: run(i + 1, s2))
        return run(0, st)

    def stmt(self, stmt, st, k):
        kd = stmt[0]
        if kd == 'let':
            _, pat, ty, rhs, els = stmt

            def bound(v, s):
                if els is None:
                    return self.bind(pat, v, s, k)

                def fell(_, s3):
                    raise self.bad('the `else` block of a `let … else` falls through')
                return self.pmatch(pat, v, s, k, lambda s2: self.block(els, s2, fell))
            return self.ev(rhs, st, bound)
        if kd == 'expr':
            return self.ev(stmt[1], st, lambda _, s: k(s))
        if kd == 'return':
            if stmt[1] is None:
                return st.kret(UNIT, st)
            return self.ev(stmt[1], st, lambda v, s: s.kret(v, s))
        if kd == 'assign':
            place, rhs = stmt[1], stmt[2]

            def store(v, s):
                if place[0] == 'deref':
                    def into(g, s2):
                        if g[0] != 'guard' or g[2] != 'w':
                            raise self.bad('assignment through something that is not a write guard of the activation cell')
                        s2 = s2.copy()
                        if v[0] == 'bool':
                            ev_ = 'V.t' if v[1] else 'V.f'
                        else:
                            ev_ = f'(if {self.rv(v)} then V.t else V.f)'
                        s2.log = (s2.log[0], s2.log[1] + (('ev', g[1], ev_),))
                        return k(s2)
                    return self.ev(place[1], s, into)
                if place[0] == 'path' and len(place[1]) == 1:
                    if v[0] in ('guard', 'lockres', 'closure', 'struct', 'newcell'):
                        raise self.bad(f'assignment of a {v[0]}')
                    s = s.copy()
                    s.assign(place[1][0], v)
                    return k(s)
                raise self.bad('assignment to a place outside the recognised grammar')
            return self.ev(rhs, st, store)
        if kd == 'for':
            return self.ev(stmt[2], st, lambda itv, s: self.loop(stmt[1], itv, stmt[3], s, k))
        raise self.bad('statement ' + kd)

    # ---- expressions -------------------------------------------------------------------------
    def ev_list(self, es, st, k, acc=()):
        if not es:
            return k(list(acc), st)
        return self.ev(es[0], st, lambda v, s: self.ev_list(es[1:], s, k, acc + (v,)))

    def ev(self, e, st, k):
        kd = e[0]
        if kd in ('paren', 'ref'):
            return self.ev(e[1], st, k)
        if kd == 'unit':
            return k(UNIT, st)
        if kd == 'num':
            return k(T('nat', f'({e[1]} : Nat)'), st)
        if kd == 'flt':
            return k(T('rat', flt_to_rat(e[1])), st)
        if kd == 'path':
            return k(self.path(e[1], st), st)
        if kd == 'deref':
            def rd(v, s):
                if v[0] == 'guard':
                    return k(T('bool', f'({self.cells(s)} {v[1]})'), s)
                return k(v, s)
            return self.ev(e[1], st, rd)
        if kd == 'not':
            def neg(v, s):
                if v[0] == 'bool':
                    return k(('bool', not v[1]), s)
                if v[0] == 'not':
                    return k(v[1], s)
                if v[0] == 'term' and v[1] == 'bool':
                    if v[2] in s.known:
                        return k(('bool', not s.known[v[2]]), s)
                    return k(('not', v), s)
                raise self.bad('`!` on a ' + v[0])
            return self.ev(e[1], st, neg)
        if kd == 'neg':
            def ng(v, s):
                if v[0] == 'term' and v[1] == 'rat':
                    return k(T('rat', f'(-{v[2]})'), s)
                raise self.bad('unary `-` on a ' + str(v[:2]))
            return self.ev(e[1], st, ng)
        if kd == 'cast':
            return self.cast(e[1], e[2], st, k)
        if kd == 'bin':
            return self.bin(e[1], e[2], e[3], st, k)
        if kd == 'field':
            return self.ev(e[1], st, lambda v, s: k(self.field(v, e[2], s), s))
        if kd == 'tuple':
            return self.ev_list(e[1], st, lambda vs, s: k(('tuple', vs), s))
        if kd == 'block':
            return self.block(e, st, k)
        if kd == 'if':
            _, cond, then_, els = e

            def go(c, s):
                return self.fork_bool(c, s, lambda s1: self.block(then_, s1, k),
                                      lambda s2: k(UNIT, s2) if els is None else self.block(els, s2, k))
            return self.ev(cond, st, go)
        if kd == 'iflet':
            _, pat, scrut, then_, els = e

            def go(v, s):
                s = s.copy()
                s.env.append({})
                d = len(s.env)

                def pop(kk):
                    def f(val, s2):
                        s2 = s2.copy()
                        s2.env = s2.env[:d - 1]
                        s2.muts = {m for m in s2.muts if m[0] < d - 1}
                        return kk(val, s2)
                    return f
                return self.pmatch(pat, v, s, lambda s1: self.block(then_, s1, pop(k)),
                                   lambda s2: pop(k)(UNIT, s2) if els is None else self.block(els, s2, pop(k)))
            return self.ev(scrut, st, go)
        if kd == 'match':
            _, scrut, arms = e

            def go(v, s):
                s = s.copy()
                s.env.append({})
                d = len(s.env)

                def pop(val, s2):
                    s2 = s2.copy()
                    s2.env = s2.env[:d - 1]
                    s2.muts = {m for m in s2.muts if m[0] < d - 1}
                    return k(val, s2)

                def arm(i, s1):
                    if i == len(arms):
                        raise self.bad('a `match` whose arms do not cover the value')
                    s1 = s1.copy()
                    s1.env[d - 1] = {}
                    return self.pmatch(arms[i][0], v, s1, lambda s2: self.ev(arms[i][1], s2, pop),
                                       lambda s3: arm(i + 1, s3))
                return arm(0, s)
            return self.ev(scrut, st, go)
        if kd == 'try':
            def q(v, s):
                if v[0] in ('res', 'resV'):
                    return self.force_res(v, s, lambda x, s1: k(x, s1), lambda s2: s2.kret(('res', 'err'), s2))
                return self.fork_opt(v, s, lambda s1: s1.kret(('opt', 'none'), s1), lambda x, s2: k(x, s2))
            return self.ev(e[1], st, q)
        if kd == 'return_expr':
            if e[1] is None:
                return st.kret(UNIT, st)
            return self.ev(e[1], st, lambda v, s: s.kret(v, s))
        if kd == 'jump':
            if st.kloop is None:
                raise self.bad(f'`{e[1]}` outside a loop')
            return st.kloop[0 if e[1] == 'continue' else 1](st)
        if kd == 'closure':
            return k(('closure', e[1], e[2]), st)
        if kd == 'struct':
            return self.struct(e, st, k)
        if kd == 'macro':
            return self.macro(e[1], e[2], st, k)
        if kd == 'call':
            return self.call(e[1], e[2], st, k)
        if kd == 'mcall':
            name = e[2].split('::')[0]
            return self.ev(e[1], st, lambda rcv, s: self.ev_list(e[3], s, lambda args, s2: self.method(rcv, name, args, s2, k)))
        if kd == 'index':
            def ix(vs, s):
                l, i = vs
                if l[0] == 'term' and isinstance(l[1], tuple) and l[1][0] == 'list' and kind_of(i) == 'nat':
                    return self.fork_opt(T(('opt', l[1][1]), f'{l[2]}[{self.rv(i)}]?'), s, self.panic, k)
                raise self.bad('indexing of a ' + str(l[:2]))
            return self.ev_list([e[1], e[2]], st, ix)
        raise self.bad('expression form ' + kd)

    def path(self, p, st):
        if len(p) == 1:
            n = p[0]
            if n in ('true', 'false'):
                return ('bool', n == 'true')
            v = st.lookup(n)
            if v is not None:
                return v
            if n == 'None':
                return ('opt', 'none')
            if n == '__str':
                return ('str',)
            if n == 'PhantomData':
                return ('phantom',)
            raise self.bad(f'unknown name `{n}`')
        if p[-2] == 'CausalType' and p[-1] in self.src.variants:
            return ('enum', p[-1])
        if p[-1] == 'None' and p[-2] == 'Option':
            return ('opt', 'none')
        if p[-1] == 'PhantomData':
            return ('phantom',)
        raise self.bad('path ' + '::'.join(p))

    def field(self, v, name, st):
        if v[0] == 'self' and v[1] == 'Causaloid':
            for f, kd in self.src.fields:
                if f == name:
                    if kd in ('str', 'phantom'):
                        return (kd,)
                    if kd == 'cellref':
                        return ('cellref', f'{v[2]}.{lean_field(f)}')
                    return T(kd, f'{v[2]}.{lean_field(f)}')
            raise self.bad(f'unknown field self.{name}')
        if v[0] == 'self' and v[1] == 'CausaloidGraph' and name == self.src.graph_field:
            return ('ugraph', v[2])
        if v[0] == 'tuple' and name.isdigit() and int(name) < len(v[1]):
            return v[1][int(name)]
        if v[0] == 'errval' and name == '0':
            return ('str',)
        raise self.bad(f'field .{name} of a {v[0]}')

    def cast(self, inner, ty, st, k):
        types = self.fn['types']
        try:
            target = types.kind(ty)
        except Unsupported:
            raise self.bad('cast to ' + ty)

        def go(v, s):
            kd = kind_of(v) if v[0] in ('term', 'bool', 'not') else None
            if target == 'data':       # `as NumericalValue` / `as f64`: a computed number
                if inner[0] == 'num':
                    return k(T('rat', f'({inner[1]} : Rat)'), s)
                if kd == 'nat':
                    return k(T('rat', f'(({v[2]} : Nat) : Rat)'), s)
                if kd == 'rat':
                    return k(v, s)
            if target == 'nat' and kd == 'nat':
                return k(v, s)
            raise self.bad(f'cast of a {kd} to {ty}')
        return self.ev(inner, st, go)

    def bin(self, op, l, r, st, k):
        if op in ('&&', '||'):
            def left(a, s):
                if op == '&&':
                    return self.fork_bool(a, s, lambda s1: self.ev(r, s1, k), lambda s2: k(('bool', False), s2))
                return self.fork_bool(a, s, lambda s1: k(('bool', True), s1), lambda s2: self.ev(r, s2, k))
            return self.ev(l, st, left)

        def go(vs, s):
            a, b = vs
            if a[0] == 'enum' or b[0] == 'enum' or (a[0] == 'term' and a[1] == 'ctype'):
                if op not in ('==', '!=') or {a[0], b[0]} - {'enum', 'term'}:
                    raise self.bad(f'`{op}` on CausalType values')
                if a[0] == 'term' and b[0] == 'term':
                    raise self.bad('comparison of two symbolic CausalType values')
                sym, lit = (a, b) if b[0] == 'enum' else (b, a)
                return self.fork_ctype(sym, s, lambda x, s1: k(('bool', (x == lit[1]) == (op == '==')), s1))
            ka, kb = kind_of(a), kind_of(b)
            if op in ('+', '-', '*', '/'):
                if ka == 'nat' and kb == 'nat':
                    if op in ('-', '/'):
                        raise self.bad(f'`{op}` on unsigned integers')
                    return k(T('nat', f'({a[2]} {op} {b[2]})'), s)
                if ka == 'rat' and kb == 'rat':
                    return k(T('rat', f'({a[2]} {op} {b[2]})'), s)
                raise self.bad(f'`{op}` on {ka}, {kb}')
            if op in ('==', '!=', '<', '<=', '>', '>='):
                if ka != kb:
                    raise self.bad(f'comparison `{op}` of a {ka} with a {kb}')
                if ka in ('nat', 'rat'):
                    lop = {'==': '=', '!=': '≠', '<': '<', '<=': '≤', '>': '>', '>=': '≥'}[op]
                    return k(T('bool', f'(decide ({a[2]} {lop} {b[2]}))'), s)
                if ka == 'bool' and op in ('==', '!='):
                    return k(T('bool', f'({self.rv(a)} {op} {self.rv(b)})'), s)
                raise self.bad(f'comparison `{op}` on {ka}')
            raise self.bad('operator ' + op)
        return self.ev_list([l, r], st, go)

    def pure_strs(self, vs):
        """error payloads / messages: everything that went into them has been evaluated (any effect is in the state already)"""
        return None

    def macro(self, name, args, st, k):
        name = name.split('::')[-1]
        if name == 'matches':
            if len(args) != 2:
                raise self.bad('matches! with ≠ 2 arguments')
            pat = expr_to_pattern(args[1])
            if scan(pat, ('bind',)):
                raise self.bad('matches! with a binding')
            return self.ev(args[0], st, lambda v, s: self.pmatch(pat, v, s, lambda s1: k(('bool', True), s1),
                                                                  lambda s2: k(('bool', False), s2)))
        if name in ('format', 'println', 'eprintln', 'print'):
            return self.ev_list(args, st, lambda vs, s: k(('str',) if name == 'format' else UNIT, s))
        if name in ('panic', 'unreachable', 'unimplemented', 'todo'):
            return self.ev_list(args, st, lambda vs, s: self.panic(s))
        if name in ('assert', 'debug_assert'):
            return self.ev(args[0], st, lambda c, s: self.fork_bool(c, s, lambda s1: k(UNIT, s1), self.panic))
        if name in ('assert_eq', 'debug_assert_eq', 'assert_ne', 'debug_assert_ne') and len(args) >= 2:
            eq = name.endswith('_eq')

            def cmp(vs, s):
                a, b = vs[0], vs[1]
                ok, no = (lambda s1: k(UNIT, s1)), self.panic
                if not eq:
                    ok, no = no, ok
                if kind_of(a) == 'bool' and kind_of(b) == 'bool':
                    return self.fork_bool(a, s, lambda s1: self.fork_bool(b, s1, ok, no), lambda s2: self.fork_bool(b, s2, no, ok))
                if kind_of(a) == kind_of(b) and kind_of(a) in ('nat', 'rat'):
                    return self.fork_bool(T('bool', f'(decide ({a[2]} = {b[2]}))'), s, ok, no)
                raise self.bad(f'{name}! on {kind_of(a)}, {kind_of(b)}')
            return self.ev_list(args, st, cmp)
        raise self.bad(f'macro {name}!')

    def struct(self, e, st, k):
        _, path, fields = e
        if path[-1] not in ('Causaloid', 'Self') or self.unit != 'Causaloid':
            raise self.bad('struct literal ' + '::'.join(path))
        names = [f for f, _ in fields]
        if len(set(names)) != len(names):
            raise self.bad('struct literal: a field is initialised twice')
        if set(names) != {f for f, _ in self.src.fields}:
            raise self.bad('struct literal: not every field of Causaloid is initialised (or `..base`)')

        def done(vs, s):
            return k(('struct', dict(zip(names, vs))), s)
        return self.ev_list([x for _, x in fields], st, done)

    def call(self, f, args, st, k):
        if f[0] == 'path':
            p = f[1]
            name = p[-1]
            if len(p) == 1 and st.lookup(name) is not None:
                return self.ev_list(args, st, lambda vs, s: self.apply_fn(s.lookup(name), vs, s, k))
            if name in ('Some', 'Ok', 'Err') and len(p) <= 2 and len(args) == 1:
                def wrap(v, s):
                    if name == 'Some':
                        return k(('opt', 'some', v), s)
                    if name == 'Ok':
                        return k(('res', 'ok', v), s)
                    return k(('res', 'err'), s)
                return self.ev(args[0], st, wrap)
            if p[-2:] in (['Arc', 'new'], ['Rc', 'new'], ['Box', 'new']) and len(args) == 1:
                return self.ev(args[0], st, k)
            if p[-2:] in (['RwLock', 'new'], ['Mutex', 'new']) and len(args) == 1:
                def cell(v, s):
                    if v[0] != 'bool':
                        raise self.bad('the initial content of the activation cell is not a bool literal')
                    return k(('newcell', v), s)
                return self.ev(args[0], st, cell)
            if re.fullmatch(r'\w*Error', name):
                return self.ev_list(args, st, lambda vs, s: k(('errval',), s))
            if p[-2:] in (['String', 'new'], ['String', 'from']) or name == 'String':
                return self.ev_list(args, st, lambda vs, s: k(('str',), s))
            if name == 'drop' and len(p) == 1 and len(args) == 1 and args[0][0] == 'path' and len(args[0][1]) == 1:
                s = st.copy()
                for fr in reversed(s.env):
                    if args[0][1][0] in fr:
                        if fr[args[0][1][0]][0] != 'guard':
                            raise self.bad('drop of something that is not a lock guard')
                        del fr[args[0][1][0]]
                        return k(UNIT, s)
                raise self.bad('drop of an unknown name')
            if len(p) == 2 and p[0] in ('Self', self.unit) and name in self.src.fns[self.unit]:
                fn = self.src.fns[self.unit][name]
                if fn['self']:
                    if not args:
                        raise self.bad(f'{name}: receiver missing')
                    return self.ev_list(args, st, lambda vs, s: self.call_fn(self.unit, name, vs[0], vs[1:], s, k))
                return self.ev_list(args, st, lambda vs, s: self.inline(fn, None, vs, s, k))
            raise self.bad('call of ' + '::'.join(p))
        return self.ev(f, st, lambda fv, s: self.ev_list(args, s, lambda vs, s2: self.apply_fn(fv, vs, s2, k)))

    def apply_fn(self, fv, vs, st, k):
        if fv[0] == 'term' and fv[1] == 'fn1' and len(vs) == 1 and kind_of(vs[0]) == 'data':
            return k(('resV', f'({fv[2]} {vs[0][2]})'), st)
        if fv[0] == 'term' and fv[1] == 'fn2' and len(vs) == 2 and kind_of(vs[0]) == 'data' and kind_of(vs[1]) == 'ctx':
            return k(('resV', f'({fv[2]} {vs[0][2]} {vs[1][2]})'), st)
        if fv[0] == 'closure':
            return self.apply_closure(fv, vs, st, k)
        raise self.bad(f'call of a {fv[:2]} with {[v[:2] for v in vs]}')

    def apply_closure(self, cl, vs, st, k):
        if len(cl[1]) != len(vs):
            raise self.bad('closure called with the wrong number of arguments')
        s = st.copy()
        s.env.append({})
        d = len(s.env)

        def out(v, s2):
            s2 = s2.copy()
            s2.env = s2.env[:d - 1]
            s2.muts = {m for m in s2.muts if m[0] < d - 1}
            s2.kret = st.kret
            return k(v, s2)

        def go(i, s1):
            if i == len(vs):
                s1 = s1.copy()
                s1.kret = out
                return self.ev(cl[2], s1, out)
            return self.bind(cl[1][i], vs[i], s1, lambda s2: go(i + 1, s2))
        return go(0, s)

    def closure_term(self, cl, elem, st):
        """a closure applied to the bound variable `elem` as a Lean term (pure: no effects, no panic, no jump)"""
        def fin(v, s):
            if s.log != st.log:
                raise self.bad('a closure with effects')
            return leaf('val', v, s)
        s0 = st.copy()
        s0.kloop = None
        tree = self.apply_closure(cl, [elem], s0, fin)
        return self.as_term(tree)

    def as_term(self, tree):
        t = tree[0]
        if t == 'leaf':
            if tree[1] != 'val':
                raise self.bad('control flow / a panic inside a closure or an accumulator step')
            return self.rv(tree[2])
        if t == 'if':
            a, b = self.as_term(tree[2]), self.as_term(tree[3])
            return a if a == b else f'(if {tree[1]} then {a} else {b})'
        arms = [(p, self.as_term(x)) for p, x in tree[2]]
        if len({x for _, x in arms}) == 1 and not any(re.search(r'\b' + re.escape(p.split()[-1]) + r'\b', x)
                                                       for p, x in arms if ' ' in p):
            return arms[0][1]
        return '(match ' + tree[1] + ' with ' + ' '.join(f'| {p} => {x}' for p, x in arms) + ')'

    # ---- method calls --------------------------------------------------------------------------
    def method(self, rcv, name, args, st, k):
        t = rcv[0]
        # ---- self of the unit being translated, or a term that stands for such a value
        if t == 'self':
            unit = rcv[1]
            if unit == 'CausableReasoning' and name in self.src.coll_required:
                if args:
                    raise self.bad(f'self.{name} with arguments')
                kd = {'len': 'nat', 'is_empty': 'bool', 'get_all_items': ('list', 'member')}.get(name)
                if kd is None:
                    raise self.bad(f'required method {name}() has no counterpart in the model vocabulary')
                return k(T(kd, f'{rcv[2]}.{name}'), st)
            if name in self.src.fns[unit]:
                return self.call_fn(unit, name, rcv, args, st, k)
            if name in IDENT_METHODS and not args:
                return k(rcv, st)
            raise self.bad(f'method {name}() on {unit}')
        if t == 'ugraph':
            g = rcv[1]
            if args:
                raise self.bad(f'graph storage method {name} with arguments')
            if name == 'get_all_nodes':
                return k(T(('list', 'member'), f'(G.get_all_nodes {g})'), st)
            if name == 'size':
                return k(T('nat', f'(G.size {g})'), st)
            if name == 'is_empty':
                return k(T('bool', f'(G.is_empty {g})'), st)
            raise self.bad(f'graph storage method {name}() has no counterpart in the model vocabulary')
        if t == 'cellref':
            if name in ('read', 'write', 'lock') and not args:
                for fr in st.env:
                    for gv in fr.values():
                        if gv[0] == 'guard' and gv[1] == rcv[1] and (gv[2] == 'w' or name != 'read'):
                            raise self.bad('the activation cell is locked while a guard of it is alive (would deadlock)')
                return k(('lockres', rcv[1], 'r' if name == 'read' else 'w'), st)
            if name in ('clone',) and not args:
                return k(rcv, st)
            raise self.bad(f'method {name}() on the activation cell')
        if t == 'lockres':
            if name in ('unwrap', 'expect'):
                return k(('guard', rcv[1], rcv[2]), st)
            raise self.bad(f'method {name}() on a lock result')
        if t == 'guard':
            raise self.bad(f'method {name}() on a lock guard (only `*guard` is recognised)')
        if t in ('str', 'errval'):
            if name in ('into', 'to_string', 'to_owned', 'as_str', 'clone', 'to_uppercase', 'to_lowercase'):
                return k(('str',), st)
            raise self.bad(f'method {name}() on a string / error value')
        if t in ('res', 'resV'):
            return self.res_method(rcv, name, args, st, k)
        kd = kind_of(rcv) if t in ('term', 'opt', 'bool', 'not', 'enum') else None
        if t == 'opt' or (isinstance(kd, tuple) and kd[0] == 'opt'):
            return self.opt_method(rcv, name, args, st, k)
        if kd == 'member':
            c = rcv[2]
            if name == 'is_active' and not args:
                return k(T('bool', f'(M.is_active {self.cells(st)} {c})'), st)
            if name == 'is_singleton' and not args:
                return k(T('bool', f'(M.is_singleton {c})'), st)
            if name == 'verify_single_cause' and len(args) == 1 and kind_of(args[0]) == 'data':
                return self.eff_call(f'(M.verify_single_cause {c} {args[0][2]})', st, k)
            if name == 'verify_all_causes' and len(args) == 2:
                d, ix = args
                if kind_of(d) != ('list', 'data') or not (ix == ('opt', 'none') or kind_of(ix) == ('opt', 'imap')):
                    raise self.bad('verify_all_causes: argument types')
                return self.eff_call(f'(M.verify_all_causes {c} {d[2]} {self.rv(ix)})', st, k)
            if name in IDENT_METHODS and not args:
                return k(rcv, st)
            raise self.bad(f'member method {name}() is not in the dictionary of `Causable`')
        if kd == 'graph':
            g = rcv[2]
            if name == 'get_graph' and not args:
                return k(('ugraph', g), st)
            if name == 'reason_all_causes' and len(args) == 2:
                d, ix = args
                if kind_of(d) != ('list', 'data') or not (ix == ('opt', 'none') or kind_of(ix) == ('opt', 'imap')):
                    raise self.bad('reason_all_causes: argument types')
                return self.eff_call(f'(G.reason_all_causes {g} {d[2]} {self.rv(ix)})', st, k)
            if name in self.src.fns['CausaloidGraph']:
                return self.call_fn('CausaloidGraph', name, ('self', 'CausaloidGraph', g), args, st, k)
            if name in IDENT_METHODS and not args:
                return k(rcv, st)
            raise self.bad(f'graph method {name}() has no counterpart in the model vocabulary')
        if isinstance(kd, tuple) and kd[0] == 'list':
            return self.list_method(rcv, name, args, st, k)
        if t == 'enumlist':
            raise self.bad(f'method {name}() after enumerate() (only a `for` loop may consume it)')
        if kd in ('data', 'nat', 'rat', 'bool', 'ctx', 'fn1', 'fn2', 'ctype', 'imap') and name in IDENT_METHODS and not args:
            return k(rcv, st)
        raise self.bad(f'method {name}() on a {kd or t}')

    def opt_method(self, rcv, name, args, st, k):
        if name in IDENT_METHODS and not args:
            return k(rcv, st)
        if name in ('unwrap', 'expect'):
            return self.fork_opt(rcv, st, self.panic, k)
        if name in ('is_some', 'is_none') and not args:
            return self.fork_opt(rcv, st, lambda s: k(('bool', name == 'is_none'), s),
                                 lambda _, s: k(('bool', name == 'is_some'), s))
        if name == 'ok_or' and len(args) == 1:
            return self.fork_opt(rcv, st, lambda s: k(('res', 'err'), s), lambda v, s: k(('res', 'ok', v), s))
        if name == 'ok_or_else' and len(args) == 1 and args[0][0] == 'closure':
            return self.fork_opt(rcv, st, lambda s: self.apply_closure(args[0], [], s, lambda _, s2: k(('res', 'err'), s2)),
                                 lambda v, s: k(('res', 'ok', v), s))
        if name == 'unwrap_or' and len(args) == 1:
            return self.fork_opt(rcv, st, lambda s: k(args[0], s), k)
        if name in ('map', 'and_then', 'is_some_and') and len(args) == 1 and args[0][0] == 'closure':
            def some(v, s):
                if name == 'map':
                    return self.apply_closure(args[0], [v], s, lambda r, s2: k(('opt', 'some', r), s2))
                return self.apply_closure(args[0], [v], s, k)
            none_v = ('bool', False) if name == 'is_some_and' else ('opt', 'none')
            return self.fork_opt(rcv, st, lambda s: k(none_v, s), some)
        raise self.bad(f'method {name}() on an Option')

    def res_method(self, rcv, name, args, st, k):
        if name in ('unwrap', 'expect'):
            return self.force_res(rcv, st, k, self.panic)
        if name in ('is_ok', 'is_err') and not args:
            return self.force_res(rcv, st, lambda _, s: k(('bool', name == 'is_ok'), s), lambda s: k(('bool', name == 'is_err'), s))
        if name == 'ok' and not args:
            return self.force_res(rcv, st, lambda v, s: k(('opt', 'some', v), s), lambda s: k(('opt', 'none'), s))
        if name == 'map_err' and len(args) == 1:
            if args[0][0] != 'closure':
                raise self.bad('map_err with something that is not a closure')
            # the payload is dropped, but whatever the closure does on the error path is executed
            return self.force_res(rcv, st, lambda v, s: k(('res', 'ok', v), s),
                                  lambda s: self.apply_closure(args[0], [('errval',)], s, lambda _, s2: k(('res', 'err'), s2)))
        if name == 'unwrap_or' and len(args) == 1:
            return self.force_res(rcv, st, k, lambda s: k(args[0], s))
        if name in ('map', 'and_then') and len(args) == 1 and args[0][0] == 'closure':
            def ok(v, s):
                if name == 'map':
                    return self.apply_closure(args[0], [v], s, lambda r, s2: k(('res', 'ok', r), s2))
                return self.apply_closure(args[0], [v], s, k)
            return self.force_res(rcv, st, ok, lambda s: k(('res', 'err'), s))
        raise self.bad(f'method {name}() on a Result')

    def list_method(self, rcv, name, args, st, k):
        L, ek = rcv[2], rcv[1][1]
        if name in ('iter', 'into_iter', 'copied', 'cloned', 'by_ref', 'as_slice', 'as_ref', 'to_vec', 'clone', 'to_owned',
                    'collect') and not args:
            return k(rcv, st)
        if name == 'enumerate' and not args:
            return k(('enumlist', L, ek), st)
        if name in ('len', 'count') and not args:
            return k(T('nat', f'{L}.length'), st)
        if name == 'is_empty' and not args:
            return k(T('bool', f'{L}.isEmpty'), st)
        if name == 'get' and len(args) == 1 and kind_of(args[0]) == 'nat':
            return k(T(('opt', ek), f'{L}[{self.rv(args[0])}]?'), st)
        if name == 'first' and not args:
            return k(T(('opt', ek), f'{L}.head?'), st)
        if name in ('filter', 'all', 'any') and len(args) == 1 and args[0][0] == 'closure':
            var = self.var_name(args[0][1][0][1] if args[0][1] and args[0][1][0][0] == 'bind' else 'x', st)
            body = self.closure_term(args[0], T(ek, var), st)
            if name == 'filter':
                return k(T(('list', ek), f'({L}.filter (fun {var} => {body}))'), st)
            return k(T('bool', f'({L}.{name} (fun {var} => {body}))'), st)
        if ek == 'member' and name in self.src.fns['CausableReasoning']:
            return self.call_fn('CausableReasoning', name, ('self', 'CausableReasoning', f'(Coll.ofVec {L})'), args, st, k)
        if ek == 'member' and name == 'get_all_items' and not args:
            return k(rcv, st)
        raise self.bad(f'method {name}() on a list of {ek}')

    # ---- calls of other functions of the translated units ---------------------------------------
    def call_fn(self, unit, name, selfv, args, st, k):
        fn = self.src.fns[unit][name]
        if unit == 'Causaloid' and any(gv[0] == 'guard' for fr in st.env for gv in fr.values()):
            raise self.bad(f'{name}() is called while a guard of the activation cell is alive (it may lock the cell again)')
        if not fn['self']:
            raise self.bad(f'{name} called with a receiver')
        if name in ROOTS[unit] and (unit, name) not in self.active:
            rec = self.gen.need(unit, name)
            if rec['shape'] != 'ctor':
                if len(args) != len(rec['params']):
                    raise self.bad(f'{name}: wrong number of arguments')
                texts = []
                for (pn, pk), a in zip(rec['params'], args):
                    if a == ('opt', 'none') and isinstance(pk, tuple) and pk[0] == 'opt':
                        texts.append('none')
                        continue
                    if kind_of(a) != pk:
                        raise self.bad(f'{name}: argument {pn} is a {kind_of(a)}, expected {pk}')
                    texts.append(self.rv(a))
                call = f'({unit}.{name} {self.hdr(unit, st)} {selfv[2]}' + ''.join(' ' + x for x in texts) + ')'
                if unit != 'CausableReasoning' and self.unit == 'CausableReasoning':
                    raise self.bad(f'call of {unit}::{name} from a default method of CausableReasoning')
                if rec['shape'] == 'eff':
                    return self.eff_call(call, st, k)
                if rec['shape'] == 'opt':
                    return self.fork_opt(T(('opt', rec['ret']), call), st, self.panic, k)
                return k(T(rec['ret'], call), st)
        return self.inline(fn, selfv, args, st, k)

    def inline(self, fn, selfv, args, st, k):
        if st.depth >= MAX_INLINE or (fn['unit'], fn['name']) in self.active[1:] or \
                ((fn['unit'], fn['name']) == self.active[0] and st.depth > 0):
            raise self.bad(f'recursion through {fn["name"]}')
        body = self.src.body(fn)
        if len(args) != len(fn['params']):
            raise self.bad(f'{fn["name"]}: wrong number of arguments')
        s = st.copy()
        saved_env, saved_muts, saved_kret, saved_kloop = s.env, s.muts, s.kret, s.kloop
        frame = {}
        if selfv is not None:
            frame['self'] = selfv
        for (pn, _), a in zip(fn['params'], args):
            frame[pn] = a
        s.env, s.muts, s.kloop, s.depth = [frame], set(), None, s.depth + 1
        saved_fn, self.fn = self.fn, fn
        self.active.append((fn['unit'], fn['name']))

        def back(v, s2):
            s2 = s2.copy()
            s2.env, s2.muts, s2.kret, s2.kloop, s2.depth = [dict(f) for f in saved_env], set(saved_muts), saved_kret, \
                saved_kloop, s2.depth - 1
            cur_fn, cur_active = self.fn, list(self.active)
            self.fn = saved_fn
            self.active = [a for a in self.active]
            self.active.remove((fn['unit'], fn['name']))
            try:
                return k(v, s2)
            finally:
                self.fn, self.active = cur_fn, cur_active
        s.kret = back
        try:
            return self.block(body, s, back)
        finally:
            self.fn = saved_fn
            if (fn['unit'], fn['name']) in self.active[1:]:
                self.active.remove((fn['unit'], fn['name']))

    # ---- loops -------------------------------------------------------------------------------
    def loop(self, pat, itv, body, st, k):
        if itv[0] == 'enumlist':
            L, ek, enum = itv[1], itv[2], True
        elif itv[0] == 'term' and isinstance(itv[1], tuple) and itv[1][0] == 'list':
            L, ek, enum = itv[2], itv[1][1], False
        else:
            raise self.bad('`for` over a ' + str(itv[:2]))
        jumps = scan(body, ('return', 'return_expr', 'jump', 'try', 'for'))
        names = []
        assigned_names(body, names)
        if not enum:
            r = self.loop_any(pat, L, ek, body, st, k)
            if r is not None:
                return r
            if not jumps and names:
                r = self.loop_fold(pat, L, ek, body, names, st, k)
                if r is not None:
                    return r
        return self.loop_rec(pat, L, ek, enum, body, names, st, k)

    def loop_any(self, pat, L, ek, body, st, k):
        """for x in xs { [let…;]* if c { return e } }  ==  if xs.any (fun x => c) then return e else go on"""
        stmts = list(body[1])
        if body[2] is not None:
            stmts.append(('expr', body[2]))
        if not stmts or stmts[-1][0] != 'expr' or stmts[-1][1][0] != 'if' or stmts[-1][1][3] is not None:
            return None
        if any(x[0] != 'let' or x[4] is not None for x in stmts[:-1]):
            return None
        _, cond, then_, _ = stmts[-1][1]
        if then_[0] != 'block' or then_[2] is not None or len(then_[1]) != 1 or then_[1][0][0] != 'return' or then_[1][0][1] is None:
            return None
        ret = then_[1][0][1]
        if pat[0] != 'bind' or scan(stmts[:-1] + [cond], ('return', 'return_expr', 'jump', 'try', 'for', 'assign')):
            return None
        var = self.var_name(pat[1], st)
        cl = ('closure', [pat], ('block', stmts[:-1], cond))
        try:
            c = self.closure_term(cl, T(ek, var), st)
        except Unsupported:
            return None
        anyv = T('bool', f'({L}.any (fun {var} => {c}))')
        return self.fork_bool(anyv, st, lambda s1: self.ev(ret, s1, lambda v, s2: s2.kret(v, s2)), k)

    def loop_fold(self, pat, L, ek, body, names, st, k):
        """a loop that only updates `let mut` locals: List.foldl over the tuple of those locals"""
        slots = []
        for n in names:
            for i in range(len(st.env) - 1, -1, -1):
                if n in st.env[i]:
                    if (i, n) in st.muts and (i, n) not in slots:
                        slots.append((i, n))
                    break
        if not slots or pat[0] != 'bind':
            return None
        slots.sort()
        try:
            kinds = [kind_of(st.env[i][n]) for i, n in slots]
            for kd in kinds:
                ltype(kd)
        except Unsupported:
            return None
        nb = st.nbound + 1
        acc, var = f'acc{nb}', self.var_name(pat[1], st)
        if var == acc:
            return None

        def comp(j):
            if len(slots) == 1:
                return acc
            return acc + '.2' * j + ('' if j == len(slots) - 1 else '.1')
        sb = st.copy()
        sb.nbound = nb
        for j, (i, n) in enumerate(slots):
            sb.env[i][n] = T(kinds[j], comp(j))
        sb.env.append({})
        d = len(sb.env)

        def fin(s):
            if s.log != st.log:
                raise Unsupported('effects')
            vals = [s.env[i][n] for i, n in slots]
            return leaf('val', vals[0] if len(vals) == 1 else ('tuple', vals), s)
        sb.kloop = None
        sb.kret = None
        try:
            tree = self.bind(pat, T(ek, var), sb, lambda s1: self.block(body, s1, lambda _, s2: fin(s2)))
            step = self.as_term(tree)
        except (Unsupported, TypeError):
            return None
        inits = [self.rv(st.env[i][n]) for i, n in slots]
        init = inits[0] if len(inits) == 1 else '(' + ', '.join(inits) + ')'
        aty = ltype(kinds[0]) if len(kinds) == 1 else '(' + ' × '.join(ltype(x) for x in kinds) + ')'
        fold = f'({L}.foldl (fun ({acc} : {aty}) {var} => {step}) {init})'
        s = st.copy()
        for j, (i, n) in enumerate(slots):
            s.env[i][n] = T(kinds[j], fold if len(slots) == 1 else f'{fold}' + '.2' * j + ('' if j == len(slots) - 1 else '.1'))
        return k(s)

    def loop_rec(self, pat, L, ek, enum, body, names, st, k):
        """the general case: an auxiliary recursive definition over the list"""
        if self.loopdepth:
            raise self.bad('a loop inside a loop body that needs its own recursive definition')
        if st.depth:
            raise self.bad('a loop with early exits / effects inside an inlined helper')
        self.nloops += 1
        n = self.nloops
        name = f'{self.unit}.{self.fn["name"]}.loop{n}'
        slots = []
        for nm in names:
            for i in range(len(st.env) - 1, -1, -1):
                if nm in st.env[i]:
                    if (i, nm) in st.muts and (i, nm) not in slots:
                        slots.append((i, nm))
                    break
        slots.sort()
        kinds = [kind_of(st.env[i][nm]) for i, nm in slots]
        carried = []                      # (lean name, lean type)
        if self.shape == 'eff':
            carried.append(('lg', 'List Event'))
        if enum:
            carried.append((f'idx{n}', 'Nat'))
        for j, kd in enumerate(kinds):
            carried.append((f'm{n}_{j + 1}', ltype(kd)))
        scope = list(st.scope)
        ev_, rest = f'e{n}', f'rest{n}'

        def enter(s):
            s = s.copy()
            if self.shape == 'eff':
                s.log = ('lg', ())
            for j, (i, nm) in enumerate(slots):
                s.env[i][nm] = T(kinds[j], f'm{n}_{j + 1}')
            return s

        def call_text(s, idx, lst):
            parts = [name, self.hdr_params_call()] + [v for v, _ in scope]
            if self.shape == 'eff':
                parts.append(render_log(s.log))
            if enum:
                parts.append(idx)
            parts += [self.rv(s.env[i][nm]) for i, nm in slots]
            parts.append(lst)
            return '(' + ' '.join(x for x in parts if x) + ')'
        depth0 = len(st.env)

        def trim(s):
            s = s.copy()
            s.env = s.env[:depth0]
            s.muts = {m for m in s.muts if m[0] < depth0}
            return s
        # one pass through the body
        sb = enter(st)
        sb.scope = scope + [(ev_, ltype(ek))]
        sb.env.append({})
        elem = T(ek, ev_)
        val = ('tuple', [T('nat', f'idx{n}'), elem]) if enum else elem
        sb.kloop = (lambda s: leaf('call', call_text(trim(s), f'(idx{n} + 1)', rest), s),
                    lambda s: k(trim_loop(s)))

        def trim_loop(s):
            s = trim(s)
            s.kloop = st.kloop
            s.scope = [x for x in s.scope]
            return s
        self.loopdepth += 1
        try:
            cons = self.bind(pat, val, sb, lambda s1: self.block(body, s1, lambda _, s2: s2.kloop[0](s2)))
        finally:
            self.loopdepth -= 1
        nil = k(enter(st))
        self.aux.append({'name': name, 'scope': scope, 'carried': carried, 'elem': ltype(ek), 'nil': nil, 'cons': cons,
                         'ev': ev_, 'rest': rest})
        return leaf('call', call_text(st, '0', L), st)

    def hdr_params_call(self):
        base = 'M s self' if self.unit == 'CausableReasoning' else 'M G s self'
        return base + ''.join(' ' + lean_name(p) for p, _ in self.top_params)

    # ---- rendering -----------------------------------------------------------------------------
    def leaf_text(self, lf):
        _, kind, v, st = lf
        if kind == 'call':
            return v
        shape = self.shape
        if kind == 'panic':
            if shape == 'eff':
                return f'(none, {render_log(st.log)})'
            if shape == 'opt':
                return 'none'
            raise self.bad('a path reaches a panic in a function that is rendered as a total function')
        if kind != 'ret':
            raise self.bad(f'internal: leaf {kind}')
        if shape == 'eff':
            lg = render_log(st.log)
            if v[0] == 'resV':
                return f'(some {v[1]}, {lg})'
            if v[0] == 'res' and v[1] == 'err':
                return f'(some V.e, {lg})'
            if v[0] == 'res' and v[1] == 'ok':
                b = v[2]
                if b[0] == 'bool':
                    return f'(some {"V.t" if b[1] else "V.f"}, {lg})'
                if kind_of(b) == 'bool':
                    return f'(some (if {self.rv(b)} then V.t else V.f), {lg})'
            raise self.bad(f'the function answers a {v[:2]}, declared Result<bool, _>')
        if shape == 'ctor':
            return self.ctor_text(v, st)
        if st.log != (None, ()):
            raise self.bad('a function without a Result writes the activation cell')
        if v[0] in ('term', 'bool', 'not') and kind_of(v) != self.ret:
            raise self.bad(f'the function answers a {kind_of(v)}, declared {self.ret}')
        return f'(some {self.rv(v)})' if shape == 'opt' else self.rv(v)

    def ctor_text(self, v, st):
        if v[0] != 'struct' or st.log != (None, ()):
            raise self.bad('a constructor that does not answer a struct literal')
        parts, init = [], None
        for f, kd in self.src.fields:
            x = v[1][f]
            if kd in ('str', 'phantom'):
                if x[0] != kd:
                    raise self.bad(f'constructor: field {f} initialised with a {x[0]}')
                continue
            if kd == 'cellref':
                if x[0] != 'newcell' or init is not None:
                    raise self.bad(f'constructor: the activation cell {f} is not a fresh Arc<RwLock<bool>>')
                init = x[1]
                parts.append(f'{lean_field(f)} := cell')
                continue
            if x[0] in ('newcell', 'struct', 'closure', 'str', 'phantom', 'errval'):
                raise self.bad(f'constructor: field {f} initialised with a {x[0]}')
            if not (x == ('opt', 'none') and isinstance(kd, tuple) and kd[0] == 'opt') and kind_of(x) != kd:
                raise self.bad(f'constructor: field {f} is a {kd}, initialised with a {kind_of(x)}')
            parts.append(f'{lean_field(f)} := {self.rv(x)}')
        if init is None:
            raise self.bad('constructor: no activation cell')
        return '({ ' + ', '.join(parts) + ' }, ' + self.rv(init) + ')'

    def render(self, tree, ind):
        pad = '  ' * ind
        t = tree[0]
        if t == 'leaf':
            return pad + self.leaf_text(tree)
        if t == 'if':
            a, b = self.render(tree[2], ind + 1), self.render(tree[3], ind + 1)
            if a == b:
                return self.render(tree[2], ind)
            return f'{pad}(if {tree[1]} then\n{a}\n{pad}else\n{b})'
        arms = [(p, self.render(x, ind + 2)) for p, x in tree[2]]
        if len({x for _, x in arms}) == 1 and not any(re.search(r'\b' + re.escape(p.split()[-1]) + r'\b', x)
                                                       for p, x in arms if ' ' in p):
            return self.render(tree[2][0][1], ind)
        return f'{pad}(match {tree[1]} with\n' + '\n'.join(f'{pad}  | {p} =>\n{x}' for p, x in arms) + ')'

    # ---- one function --------------------------------------------------------------------------
    def run(self):
        fn, unit = self.fn, self.unit
        body = self.src.body(fn)
        types = fn['types']
        st = St()
        params = []
        for pn, pty in fn['params']:
            kd = types.kind(pty)
            if kd == 'str':
                st.env[0][pn] = ('str',)
                continue
            ltype(kd)
            params.append((pn, kd))
            st.env[0][pn] = T(kd, lean_name(pn))
        self.top_params = params
        self.params = params
        if self.shape != 'ctor':
            if not fn['self']:
                raise self.bad('a function without receiver that is not a constructor')
            st.env[0]['self'] = ('self', unit, 'self')
        elif fn['self']:
            raise self.bad('a constructor with a receiver')
        st.kret = lambda v, s: leaf('ret', v, s)
        tree = self.block(body, st, lambda v, s: leaf('ret', v, s))
        binders = ''.join(f' ({lean_name(p)} : {ltype(kd)})' for p, kd in params)
        hdr = {'CausableReasoning': '(M : CausableDict ι δ) (s : Cells) (self : Coll ι)',
               'CausaloidGraph': '(M : CausableDict ι δ) (G : GraphOps γ ι δ) (s : Cells) (self : γ)',
               'Causaloid': '(M : CausableDict ι δ) (G : GraphOps γ ι δ) (s : Cells) (self : Causaloid δ χ ι γ)'}[unit]
        if self.shape == 'ctor':
            hdr = '(cell : Nat)'
        rty = {'eff': 'Option V × List Event', 'ctor': 'Causaloid δ χ ι γ × Bool'}.get(self.shape)
        if rty is None:
            rty = ltype(self.ret) if self.shape == 'total' else f'Option {ltype(self.ret)}'
        text = self.render(tree, 1)
        lines = []
        for a in self.aux:
            sc = ''.join(f' ({v} : {ty})' for v, ty in a['scope'])
            ca = ''.join(f' ({v} : {ty})' for v, ty in a['carried'])
            lines += [f'/-- a `for` loop of `{unit}::{fn["name"]}`: `[]` = the rest of the function after the loop, '
                      f'`{a["ev"]} :: {a["rest"]}` = one pass through the body -/',
                      f'def {a["name"]} {hdr}{binders}{sc}{ca} :', f'    List {a["elem"]} → {rty}',
                      '  | [] =>', self.render(a['nil'], 2), f'  | {a["ev"]} :: {a["rest"]} =>', self.render(a['cons'], 2), '']
        sig = ' '.join(fn['sig'].split())
        sig = re.sub(r'\s*where\b.*$', '', sig)
        lines += [f'/-- `{unit}::{fn["name"]}` — `{sig}` -/', f'def {unit}.{fn["name"]} {hdr}{binders} :', f'    {rty} :=', text, '']
        return lines


def shape_of(unit, fn, types):
    ret = (fn['ret'] or '()')
    if ret in ('Self', 'Causaloid'):
        return 'ctor', None
    kd = types.kind(ret)
    if kd == ('res', 'bool'):
        return 'eff', None
    if kd == 'data':
        kd = 'rat'          # a NumericalValue that is answered is a computed number
    if kd == ('list', 'member') or kd in ('bool', 'nat', 'rat'):
        return ('opt' if (unit, fn['name']) in OPT_SHAPE else 'total'), kd
    raise Unsupported(f'{unit}::{fn["name"]}: return type {ret}')


class Gen:
    def __init__(self, repo):
        self.src = Source(repo)
        self.done, self.order, self.active = {}, [], []

    def need(self, unit, name):
        if (unit, name) in self.done:
            return self.done[(unit, name)]
        if (unit, name) in self.active:
            raise Unsupported(f'recursion through {unit}::{name}')
        fn = self.src.fns[unit].get(name)
        if fn is None:
            raise Unsupported(f'{unit}::{name} not found')
        shape, ret = shape_of(unit, fn, fn['types'])
        self.active.append((unit, name))
        ex = Exec(self, unit, fn, shape)
        ex.ret = ret
        lines = ex.run()
        self.active.pop()
        rec = {'shape': shape, 'ret': ret, 'params': ex.params, 'lines': lines}
        self.done[(unit, name)] = rec
        self.order.append((unit, name))
        return rec

    def text(self):
        src = self.src
        for unit in ('CausableReasoning', 'CausaloidGraph', 'Causaloid'):
            for name in ROOTS[unit]:
                self.need(unit, name)
        out = ['-- GENERATED by /verif/tools/rs2lean.py causable from /repo — do not edit, regenerated on every check run',
               'import DcVerif.Model.Causaloid',
               '/-! `impl Causable for Causaloid` (+ its constructors), the default methods of `CausableReasoning` and the aggregates of',
               '`CausaloidGraph`, one definition per Rust function, obtained by symbolic execution of the current source',
               '(`tools/rs2lean_causable.py`, grammar and vocabulary in its docstring). One level deep: members / nodes are abstract (`ι`)',
               'and answer through `M : CausableDict ι δ`, the wrapped graph is abstract (`γ`) and answers through `G : GraphOps γ ι δ`.',
               '`s : Cells` = the activation the call runs in; the log lists the cell writes in program order; `none` = a panic. -/',
               'set_option linter.unusedVariables false', 'namespace Gen.Causable', 'open Causal', 'open Dfs (V)', '',
               '/-- `enum CausalType` -/', 'inductive CausalType'] + [f'  | {v}' for v in src.variants] + \
              ['  deriving DecidableEq, Repr', '',
               '/-- `struct Causaloid` (not modelled: ' +
               (', '.join(f for f, k in src.fields if k in ('str', 'phantom')) or '-') + '); the `Arc<RwLock<bool>>` is a cell id -/',
               'structure Causaloid (δ χ ι γ : Type) where'] + \
              [f'  {lean_field(f)} : {ltype(k)}' for f, k in src.fields if k not in ('str', 'phantom')] + \
              ['', '/-- the required methods of `trait Causable`: what a member of a collection / a node of a graph answers -/',
               'structure CausableDict (ι δ : Type) where', '  is_active : Cells → ι → Bool', '  is_singleton : ι → Bool',
               '  verify_single_cause : ι → δ → Option V × List Event',
               '  verify_all_causes : ι → List δ → Idx → Option V × List Event', '',
               '/-- the required methods of `trait CausableReasoning`: all a default method can see of the collection -/',
               'structure Coll (ι : Type) where', '  len : Nat', '  is_empty : Bool', '  get_all_items : List ι', '',
               '/-- `impl CausableReasoning<T> for Vec<T>` (`make_len!`, `make_is_empty!`, `make_get_all_items!`) -/',
               'def Coll.ofVec {ι : Type} (v : List ι) : Coll ι := { len := v.length, is_empty := v.isEmpty, get_all_items := v }', '',
               '/-- what the code calls on the graph a causaloid wraps: the storage inside (`get_all_nodes`, `size`, `is_empty`) and',
               '`CausableGraphReasoning::reason_all_causes` (abstract here) -/',
               'structure GraphOps (γ ι δ : Type) where', '  get_all_nodes : γ → List ι', '  size : γ → Nat', '  is_empty : γ → Bool',
               '  reason_all_causes : γ → List δ → Idx → Option V × List Event', '',
               'variable {δ χ ι γ : Type}', '']
        for key in self.order:
            out += self.done[key]['lines']
        out += ['end Gen.Causable', '']
        return '\n'.join(out)


def gen_causable(repo):
    return Gen(repo).text()


def install(register):
    def guarded(repo):
        try:
            return gen_causable(repo)
        except (Unsupported, FileNotFoundError):
            raise
        except RecursionError:
            raise Unsupported('causable: the source nests too deeply')
        except Exception as ex:      # noqa: BLE001 — an unforeseen input is a rejection of the source, never a crash
            raise Unsupported(f'causable: internal {type(ex).__name__}: {ex}')
    register('causable', 'Causable.lean')(guarded)
